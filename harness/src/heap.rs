//! Counting allocator with attribution: besides the live heap bytes of the whole process, the bytes that were
//! allocated while a thread was inside a call of the crate under test (and not inside one of the harness's own
//! callbacks) are tracked block by block, so that what the crate still owns after teardown can be measured
//! exactly in scheduled runs (C17), whatever the harness itself keeps alive.

use std::alloc::{GlobalAlloc, Layout, System};
use std::cell::Cell;
use std::sync::atomic::{AtomicBool, AtomicIsize, AtomicUsize, Ordering as AO};

pub struct Counting;
pub static LIVE_BYTES: AtomicIsize = AtomicIsize::new(0);
/// bytes of live blocks that were allocated inside calls of the crate
pub static CRATE_BYTES: AtomicIsize = AtomicIsize::new(0);
static CRATE_BLOCKS: AtomicUsize = AtomicUsize::new(0);

thread_local! {
    static ATTR: Cell<bool> = const { Cell::new(false) };
}

const SLOTS: usize = 1 << 15;
const TOMB: usize = 1;
#[allow(clippy::declare_interior_mutable_const)]
const Z: AtomicUsize = AtomicUsize::new(0);
static PTRS: [AtomicUsize; SLOTS] = [Z; SLOTS];
static SIZES: [AtomicUsize; SLOTS] = [Z; SLOTS];
static LOCK: AtomicBool = AtomicBool::new(false);

fn lock() {
    while LOCK.compare_exchange(false, true, AO::Acquire, AO::Relaxed).is_err() {
        std::hint::spin_loop();
    }
}
fn unlock() {
    LOCK.store(false, AO::Release);
}
#[inline]
fn slot(p: usize) -> usize {
    (p >> 4).wrapping_mul(0x9e37_79b9_7f4a_7c15) >> (64 - 15)
}

fn insert(p: usize, size: usize) {
    lock();
    let mut i = slot(p);
    for _ in 0..SLOTS {
        let cur = PTRS[i].load(AO::Relaxed);
        if cur == 0 || cur == TOMB {
            PTRS[i].store(p, AO::Relaxed);
            SIZES[i].store(size, AO::Relaxed);
            CRATE_BYTES.fetch_add(size as isize, AO::Relaxed);
            CRATE_BLOCKS.fetch_add(1, AO::Relaxed);
            break;
        }
        i = (i + 1) & (SLOTS - 1);
    }
    unlock();
}

fn remove(p: usize) {
    if CRATE_BLOCKS.load(AO::Relaxed) == 0 {
        return;
    }
    lock();
    let mut i = slot(p);
    for _ in 0..SLOTS {
        let cur = PTRS[i].load(AO::Relaxed);
        if cur == 0 {
            break;
        }
        if cur == p {
            PTRS[i].store(TOMB, AO::Relaxed);
            let s = SIZES[i].load(AO::Relaxed);
            CRATE_BYTES.fetch_sub(s as isize, AO::Relaxed);
            CRATE_BLOCKS.fetch_sub(1, AO::Relaxed);
            break;
        }
        i = (i + 1) & (SLOTS - 1);
    }
    unlock();
}

/// Forgets everything (start of a run; blocks leaked by an earlier stuck run are not this run's)
pub fn reset() {
    lock();
    for i in 0..SLOTS {
        PTRS[i].store(0, AO::Relaxed);
    }
    CRATE_BYTES.store(0, AO::Relaxed);
    CRATE_BLOCKS.store(0, AO::Relaxed);
    unlock();
}

pub fn crate_live() -> (isize, usize) {
    (CRATE_BYTES.load(AO::Relaxed), CRATE_BLOCKS.load(AO::Relaxed))
}

unsafe impl GlobalAlloc for Counting {
    unsafe fn alloc(&self, l: Layout) -> *mut u8 {
        LIVE_BYTES.fetch_add(l.size() as isize, AO::Relaxed);
        let p = System.alloc(l);
        if !p.is_null() && ATTR.try_with(|a| a.get()).unwrap_or(false) {
            insert(p as usize, l.size());
        }
        p
    }
    unsafe fn dealloc(&self, p: *mut u8, l: Layout) {
        LIVE_BYTES.fetch_sub(l.size() as isize, AO::Relaxed);
        remove(p as usize);
        System.dealloc(p, l)
    }
}

struct Restore(bool);
impl Drop for Restore {
    fn drop(&mut self) {
        let _ = ATTR.try_with(|a| a.set(self.0));
    }
}

/// Runs a call of the crate under test: what it allocates belongs to the crate
pub fn in_crate<R>(f: impl FnOnce() -> R) -> R {
    let prev = ATTR.try_with(|a| a.replace(true)).unwrap_or(false);
    let _r = Restore(prev);
    f()
}

/// Guard for the harness's own callbacks (hooks, payload ledger, notifications) that run inside such a call
pub struct Harness(Restore);
pub fn harness() -> Harness {
    let prev = ATTR.try_with(|a| a.replace(false)).unwrap_or(false);
    Harness(Restore(prev))
}
