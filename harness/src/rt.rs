//! Deterministic runtime: real OS threads serialised by a baton at shim-op granularity.
//!
//! Every shim operation of the crate (atomic access, fence, mutex, condvar, yield, sleep) and
//! every harness-level scheduling point (API call start, payload clone/view midpoint, task wait)
//! is one *step*. Between two steps exactly one thread runs.

use multiqueue2::verif_hooks::{self as vh, OpKind};
use serde_json::{json, Value};
use std::cell::Cell;
use std::collections::{HashMap, HashSet};
use std::sync::{Condvar, Mutex, MutexGuard};

pub const MAX_THREADS: usize = 8;

#[derive(Clone, Copy, PartialEq, Eq, Debug)]
pub enum K {
    Shim(OpKind),
    /// start of an API call (harness level)
    Call,
    /// midpoint of a payload clone or of a view closure
    PayloadYield,
    /// scheduling point right after a cursor commit or a publication-tag store: the plain code that follows
    /// (moving a value out, writing a payload) can be separated from the op that precedes it
    PostCommit,
    /// waiting for a futures task notification
    TaskWait,
}

impl K {
    pub fn name(&self) -> &'static str {
        match self {
            K::Shim(o) => match o {
                OpKind::Load => "load",
                OpKind::Store => "store",
                OpKind::Cas => "cas",
                OpKind::FetchAdd => "fadd",
                OpKind::FetchSub => "fsub",
                OpKind::FetchOr => "for",
                OpKind::FetchAnd => "fand",
                OpKind::Fence => "fence",
                OpKind::Yield => "yield",
                OpKind::Sleep => "sleep",
                OpKind::MutexLock => "lock",
                OpKind::MutexTryLock => "trylock",
                OpKind::MutexUnlock => "unlock",
                OpKind::CvWait => "cvwait",
                OpKind::CvWake => "cvwake",
                OpKind::CvNotifyAll => "cvnotify",
            },
            K::Call => "call",
            K::PayloadYield => "pyield",
            K::PostCommit => "postcommit",
            K::TaskWait => "taskwait",
        }
    }
    /// An op that cannot change what another thread observes
    pub fn read_only(&self, ok: bool) -> bool {
        match self {
            K::Shim(OpKind::Load) | K::Shim(OpKind::Fence) | K::Shim(OpKind::Yield) | K::Shim(OpKind::Sleep) => true,
            // taking and releasing a lock changes nothing another thread can observe afterwards
            K::Shim(OpKind::MutexLock) | K::Shim(OpKind::MutexUnlock) | K::Shim(OpKind::CvNotifyAll) => true,
            K::Shim(OpKind::Cas) | K::Shim(OpKind::MutexTryLock) => !ok,
            K::Call | K::TaskWait | K::PayloadYield | K::PostCommit => true,
            _ => false,
        }
    }
}

#[derive(Clone, Copy, PartialEq, Eq, Debug)]
pub enum Status {
    NotStarted,
    Pending,
    Running,
    Finished,
}

#[derive(Clone, Copy, Debug)]
pub struct Pend {
    pub kind: K,
    pub addr: usize,
    pub arg: usize,
}

#[derive(Clone, Debug)]
pub struct OpRec {
    pub t: usize,
    pub kind: K,
    pub addr: usize,
    pub arg: usize,
    pub val: usize,
    pub ok: bool,
    pub phase: usize,
}

#[derive(Clone, Debug)]
pub struct StepInfo {
    pub chosen: usize,
    pub enabled: Vec<usize>,
    /// thread that ran the previous step, if it could have continued without a free switch
    pub cont: Option<usize>,
    /// previous thread when it is spinning on read-only operations (continuing it is a stutter)
    pub spin: Option<usize>,
    /// step of a phase with more than one thread
    pub multi: bool,
}

pub struct View<'a> {
    pub step: usize,
    pub enabled: &'a [usize],
    pub cont: Option<usize>,
    pub last: Option<usize>,
    pub nthreads: usize,
    /// (thread, pending op kind, name of the call the thread is in or "") for every enabled thread
    pub pend: &'a [(usize, K, String)],
    /// number of mutexes currently held by some thread
    pub held: usize,
}

pub trait Source: Send {
    fn pick(&mut self, v: &View) -> usize;
    /// (thread, op bound) while one thread is being run alone with all others frozen
    fn solo(&self) -> Option<(usize, usize)> {
        None
    }
    fn solo_abort(&mut self) {}
}

/// Default continuation policy: keep running the same thread, otherwise round-robin
pub fn default_pick(v: &View) -> usize {
    if let Some(c) = v.cont {
        return c;
    }
    match v.last {
        None => v.enabled[0],
        Some(l) => *v.enabled.iter().find(|&&t| t > l).unwrap_or(&v.enabled[0]),
    }
}

#[derive(Debug, Clone, PartialEq)]
pub enum Outcome {
    Done,
    Deadlock,
    Livelock,
    StepLimit,
}

pub const SPIN_FREE: usize = 16;

pub struct Th {
    pub status: Status,
    pub pend: Option<Pend>,
    pub ro_streak: usize,
    pub nops: usize,
    pub notified: bool,
    pub in_call: Option<Value>,
    pub call_ops: usize,
    pub retrying: bool,
    pub solo_mark: Option<usize>,
    /// the handle used by the current call has already given its token back
    pub tokenless: bool,
    /// the published stream list this thread loaded in its current library operation (0 = none): it may still
    /// dereference it
    pub hold: usize,
    /// the list this thread held when it wrote the current epoch into a token (0 = none): acknowledging an
    /// epoch change while a list is held is only harmless if the list is not used afterwards
    pub risky: usize,
    /// ops executed since the last observable change by any thread
    pub since: usize,
}

pub struct St {
    pub active: bool,
    pub abort: bool,
    pub th: Vec<Th>,
    pub held: HashSet<usize>,
    pub cvwait: HashMap<usize, Vec<usize>>,
    pub task_notified: HashMap<usize, bool>,
    pub granted: Option<usize>,
    pub step: usize,
    /// API-level events (call/ret/ledger/...), in global order
    pub api: Vec<Value>,
    /// every op, in global order
    pub ops: Vec<OpRec>,
    pub record_ops: bool,
    /// hook-reported live allocations: addr -> (bytes, align, type, seq)
    pub allocs: HashMap<usize, (usize, usize, &'static str, usize)>,
    pub quarantine: Vec<(usize, usize, usize)>,
    pub alloc_seq: usize,
    pub quarantine_on: bool,
    pub since_progress: usize,
    /// last value seen at an address (a store of the same value is not progress)
    pub lastval: HashMap<usize, usize>,
    pub source: Option<Box<dyn Source>>,
    pub steps: Vec<StepInfo>,
    pub step_base: usize,
    pub last: Option<usize>,
    pub outcome: Option<Outcome>,
    pub started: bool,
    pub livelock: usize,
    pub max_steps: usize,
    /// addresses owned by the memory manager (transparent in lockstep replay)
    pub mm_addrs: HashSet<usize>,
    pub signal_addr: usize,
    pub transparent_mm: bool,
    pub phase: usize,
    /// no API/ledger logging (long churn runs)
    pub mute: bool,
    /// run generation; threads of an aborted generation stay parked for ever (they are never unwound)
    pub gen: u64,
    /// epoch-protocol conformance: value of the manager's epoch, blocks handed over for deferred release with
    /// the epoch at that time, number of live (allocated, not yet retired) tokens
    pub mm_epoch_addr: usize,
    pub cur_epoch: usize,
    pub retired: HashMap<usize, usize>,
    pub live_tokens: isize,
    /// live tokens with the epoch they carry (block address = address of the token's epoch cell)
    pub tokens: HashMap<usize, usize>,
    /// tokens of handles that are inside their drop / unsubscribe call
    pub leaving: HashSet<usize>,
    pub gptr_addr: usize,
    /// memory-manager trace (events "mm" for MQMemImplTrace): on/off, lock addresses, dense object ids
    /// cursors and publication tags: a scheduling point follows every successful write to them (native runs)
    pub post_addrs: HashSet<usize>,
    pub mm_trace: bool,
    pub mm_lock_addr: usize,
    pub wtf_lock_addr: usize,
    pub mm_ids: HashMap<usize, usize>,
}

pub struct Rt {
    pub st: Mutex<St>,
    pub ctl: Condvar,
    pub cvs: Vec<Condvar>,
}

thread_local! {
    pub static TID: Cell<Option<usize>> = Cell::new(None);
}

pub struct AbortRun;

impl St {
    fn new() -> St {
        St {
            active: false,
            abort: false,
            th: Vec::new(),
            held: HashSet::new(),
            cvwait: HashMap::new(),
            task_notified: HashMap::new(),
            granted: None,
            step: 0,
            api: Vec::new(),
            ops: Vec::new(),
            record_ops: false,
            allocs: HashMap::new(),
            quarantine: Vec::new(),
            alloc_seq: 0,
            quarantine_on: false,
            since_progress: 0,
            lastval: HashMap::new(),
            source: None,
            steps: Vec::new(),
            step_base: 0,
            last: None,
            outcome: None,
            started: false,
            livelock: 1500,
            max_steps: 30000,
            mm_addrs: HashSet::new(),
            signal_addr: 0,
            transparent_mm: false,
            phase: 0,
            mute: false,
            gen: 0,
            mm_epoch_addr: 0,
            cur_epoch: 0,
            retired: HashMap::new(),
            live_tokens: 0,
            tokens: HashMap::new(),
            leaving: HashSet::new(),
            gptr_addr: 0,
            post_addrs: HashSet::new(),
            mm_trace: false,
            mm_lock_addr: 0,
            wtf_lock_addr: 0,
            mm_ids: HashMap::new(),
        }
    }

    /// Dense per-run numbering of the objects the memory manager deals with (tokens, stream lists, positions)
    pub fn mm_id(&mut self, addr: usize) -> usize {
        let n = self.mm_ids.len() + 1;
        *self.mm_ids.entry(addr).or_insert(n)
    }

    /// One op of (or relevant to) the memory manager, as an event for the trace specification MQMemImplTrace
    fn mm_event(&mut self, tid: usize, kind: K, addr: usize, val: usize, ok: bool) {
        if !self.mm_trace || addr == 0 {
            return;
        }
        let arg = self.th[tid].pend.map(|p| p.arg).unwrap_or(0);
        let k = kind.name();
        let ev = if addr == self.mm_epoch_addr {
            json!({"e":"mm","t":tid,"k":k,"loc":"mm_epoch","id":0,"v":val & 0xffff,"ok":ok})
        } else if addr == self.mm_lock_addr {
            json!({"e":"mm","t":tid,"k":k,"loc":"mm_lock","id":0,"v":0,"ok":ok})
        } else if addr == self.wtf_lock_addr {
            json!({"e":"mm","t":tid,"k":k,"loc":"wtf_lock","id":0,"v":0,"ok":ok})
        } else if addr == self.signal_addr {
            match kind {
                K::Shim(OpKind::Load) => json!({"e":"mm","t":tid,"k":k,"loc":"signal","id":0,"v":val & 3,"ok":ok}),
                K::Shim(OpKind::FetchOr) if arg == 1 => json!({"e":"mm","t":tid,"k":k,"loc":"signal","id":0,"v":val & 3,"ok":ok}),
                K::Shim(OpKind::FetchAnd) => json!({"e":"mm","t":tid,"k":k,"loc":"signal","id":0,"v":val & 3,"ok":ok}),
                _ => return,
            }
        } else if addr == self.gptr_addr {
            match kind {
                K::Shim(OpKind::Load) => {
                    let id = self.mm_id(val);
                    json!({"e":"mm","t":tid,"k":k,"loc":"gptr","id":id,"v":0,"ok":ok})
                }
                K::Shim(OpKind::Cas) => {
                    let id = self.mm_id(val);
                    let n = self.mm_id(arg);
                    json!({"e":"mm","t":tid,"k":k,"loc":"gptr","id":id,"v":n,"ok":ok})
                }
                _ => return,
            }
        } else if self.allocs.get(&addr).map(|a| a.2.contains("MemToken")).unwrap_or(false) {
            let id = self.mm_id(addr);
            json!({"e":"mm","t":tid,"k":k,"loc":"tok","id":id,"v":val & 0xffff,"ok":ok})
        } else {
            return;
        };
        self.api.push(ev);
    }

    fn mm_obj_event(&mut self, k: &str, addr: usize) {
        if !self.mm_trace || !self.active || self.abort {
            return;
        }
        if let Some(t) = TID.with(|c| c.get()) {
            let id = self.mm_id(addr);
            self.api.push(json!({"e":"mm","t":t,"k":k,"loc":"obj","id":id,"v":0,"ok":true}));
        }
    }

    /// The memory manager's state at the start of the scheduled part of a run (read from memory)
    pub fn mm_init_event(&mut self) -> Option<Value> {
        if !self.mm_trace || self.mm_epoch_addr == 0 || self.gptr_addr == 0 {
            return None;
        }
        let rd = |a: usize| unsafe { std::ptr::read_volatile(a as *const usize) };
        let epoch = rd(self.mm_epoch_addr) & 0xffff;
        let g = rd(self.gptr_addr);
        let gid = self.mm_id(g);
        let mut toks: Vec<(usize, usize)> = self
            .allocs
            .iter()
            .filter(|(a, v)| v.2.contains("MemToken") && !self.retired.contains_key(*a))
            .map(|(a, v)| (v.3, *a))
            .collect();
        toks.sort();
        let mut ids = Vec::new();
        let mut vals = Vec::new();
        for (_, a) in toks {
            ids.push(self.mm_id(a));
            vals.push(rd(a) & 0xffff);
        }
        let mut ret: Vec<usize> = self.retired.keys().cloned().collect();
        ret.sort();
        let wtf: Vec<usize> = ret.into_iter().map(|a| self.mm_id(a)).collect();
        let sig = if self.signal_addr != 0 { rd(self.signal_addr) & 3 } else { 0 };
        Some(json!({"e":"mminit","epoch":epoch,"gptr":gid,"toks":ids,"tokv":vals,"wtf":wtf,"sig":sig}))
    }

    /// Operations of the memory manager are not scheduling points in lockstep replay
    pub fn is_transparent(&self, kind: K, addr: usize, arg: usize) -> bool {
        if !self.transparent_mm {
            return false;
        }
        if self.mm_addrs.contains(&addr) {
            return true;
        }
        if addr != 0 && addr == self.signal_addr {
            return match kind {
                K::Shim(OpKind::FetchAnd) => true,
                K::Shim(OpKind::FetchOr) => arg == 1,
                _ => false,
            };
        }
        false
    }

    pub fn enabled(&self, t: usize) -> bool {
        let th = &self.th[t];
        if th.status != Status::Pending {
            return false;
        }
        match th.pend {
            None => false,
            Some(p) => match p.kind {
                K::Shim(OpKind::MutexLock) => !self.held.contains(&p.addr),
                K::Shim(OpKind::CvWake) => th.notified && !self.held.contains(&p.arg),
                K::TaskWait => *self.task_notified.get(&p.addr).unwrap_or(&false),
                _ => true,
            },
        }
    }
}

pub fn rt() -> &'static Rt {
    static R: std::sync::OnceLock<Rt> = std::sync::OnceLock::new();
    R.get_or_init(|| Rt {
        st: Mutex::new(St::new()),
        ctl: Condvar::new(),
        cvs: (0..MAX_THREADS).map(|_| Condvar::new()).collect(),
    })
}

impl Rt {
    pub fn lock(&self) -> MutexGuard<'_, St> {
        match self.st.lock() {
            Ok(g) => g,
            Err(p) => p.into_inner(),
        }
    }

    /// Called by the controlling thread before spawning the scenario threads
    #[allow(clippy::too_many_arguments)]
    pub fn begin_run(
        &self,
        nthreads: usize,
        record_ops: bool,
        quarantine: bool,
        source: Box<dyn Source>,
        step_base: usize,
        livelock: usize,
        max_steps: usize,
    ) {
        let mut st = self.lock();
        st.gen += 1;
        st.source = Some(source);
        st.steps.clear();
        st.step_base = step_base;
        st.last = None;
        st.outcome = None;
        st.started = false;
        st.livelock = livelock;
        st.max_steps = max_steps;
        assert!(nthreads <= MAX_THREADS);
        st.active = true;
        st.abort = false;
        st.th = (0..nthreads)
            .map(|_| Th {
                status: Status::NotStarted,
                pend: None,
                ro_streak: 0,
                nops: 0,
                notified: false,
                in_call: None,
                call_ops: 0,
                retrying: false,
                solo_mark: None,
                tokenless: false,
                hold: 0,
                risky: 0,
                since: 0,
            })
            .collect();
        st.held.clear();
        st.cvwait.clear();
        st.task_notified.clear();
        st.granted = None;
        st.step = 0;
        st.api.clear();
        st.ops.clear();
        st.record_ops = record_ops;
        st.quarantine_on = quarantine;
        st.since_progress = 0;
        st.lastval.clear();
    }

    /// Passes the baton: chooses the next thread and wakes it (unless it is `me`).
    /// Sets the outcome and wakes the controller when the run cannot go on.
    fn schedule_next(&self, st: &mut St, me: Option<usize>) {
        if st.outcome.is_some() {
            return;
        }
        if st.th.iter().all(|th| th.status == Status::Finished) {
            st.outcome = Some(Outcome::Done);
            self.ctl.notify_all();
            return;
        }
        let enabled: Vec<usize> = (0..st.th.len()).filter(|&t| st.enabled(t)).collect();
        let mut bad = None;
        let mut force: Option<usize> = None;
        if enabled.is_empty() {
            bad = Some(Outcome::Deadlock);
        } else if st.since_progress > st.livelock {
            // only a livelock if every enabled thread had its turn and merely spun; otherwise the schedule
            // source starved somebody: give that thread the baton instead
            if let Some(&starved) = enabled.iter().find(|&&t| st.th[t].since < SPIN_FREE) {
                force = Some(starved);
            } else {
                bad = Some(Outcome::Livelock);
            }
        } else if st.step >= st.max_steps {
            bad = Some(Outcome::StepLimit);
        }
        if let Some(o) = bad {
            let stuck: Vec<Value> = st
                .th
                .iter()
                .enumerate()
                .filter(|(_, th)| th.status != Status::Finished)
                .map(|(t, th)| {
                    let mut v = th.in_call.clone().unwrap_or(json!({"t":t,"op":"none","api":"none","h":""}));
                    if th.retrying && th.call_ops < 400 {
                        v["op"] = json!(format!("retry_{}", v["op"].as_str().unwrap_or("")));
                    }
                    v["pend"] = json!(th.pend.map(|p| p.kind.name()).unwrap_or("none"));
                    v["enabled"] = json!(enabled.contains(&t));
                    v
                })
                .collect();
            let why = format!("{:?}", o);
            st.api.push(json!({"e":"stuck","why":why,"ts":stuck}));
            st.outcome = Some(o);
            self.ctl.notify_all();
            return;
        }
        let last = st.last;
        let mut spin = None;
        let cont = match last {
            Some(l) if enabled.contains(&l) => {
                let th = &st.th[l];
                let free = th.ro_streak >= SPIN_FREE
                    || matches!(
                        th.pend.map(|p| p.kind),
                        Some(K::Shim(OpKind::Yield)) | Some(K::Shim(OpKind::Sleep))
                    );
                if free {
                    if enabled.len() > 1 {
                        spin = Some(l);
                    }
                    None
                } else {
                    Some(l)
                }
            }
            _ => None,
        };
        let pend: Vec<(usize, K, String)> = enabled
            .iter()
            .map(|&t| {
                let th = &st.th[t];
                (
                    t,
                    th.pend.map(|p| p.kind).unwrap_or(K::Call),
                    th.in_call.as_ref().and_then(|c| c["api"].as_str()).unwrap_or("").to_string(),
                )
            })
            .collect();
        let view = View {
            step: st.step_base + st.steps.len(),
            enabled: &enabled,
            cont,
            last,
            nthreads: st.th.len(),
            pend: &pend,
            held: st.held.len(),
        };
        let mut src = st.source.take();
        // a thread that is run alone must finish its call within the bound
        if let Some(s) = src.as_mut() {
            if let Some((t, _)) = s.solo() {
                if t >= st.th.len() || st.th[t].status == Status::Finished {
                    // left over from an earlier phase
                    s.solo_abort();
                }
            }
            if let Some((t, bound)) = s.solo() {
                if st.th[t].call_ops > bound {
                    let api = st.th[t].in_call.as_ref().and_then(|c| c["api"].as_str()).unwrap_or("").to_string();
                    st.api.push(json!({"e":"solo","t":t,"api":api,"nops":st.th[t].call_ops,"bound":bound,"done":false}));
                    st.th[t].solo_mark = None;
                    s.solo_abort();
                }
            }
            // ... and must not block on a lock that a frozen thread holds
            if let Some((t, bound)) = s.solo() {
                let blocked = st.th[t].status == Status::Pending
                    && !enabled.contains(&t)
                    && st.th[t].in_call.is_some()
                    && matches!(st.th[t].pend.map(|p| p.kind), Some(K::Shim(OpKind::MutexLock)));
                if blocked {
                    let api = st.th[t].in_call.as_ref().and_then(|c| c["api"].as_str()).unwrap_or("").to_string();
                    st.api.push(json!({"e":"solo","t":t,"api":api,"nops":st.th[t].call_ops,"bound":bound,"done":false,
                                       "blocked_on_lock":true}));
                    st.th[t].solo_mark = None;
                    s.solo_abort();
                }
            }
        }
        let mut c = match src.as_mut() {
            Some(s) => s.pick(&view),
            None => default_pick(&view),
        };
        if !enabled.contains(&c) {
            c = default_pick(&view);
        }
        if let Some(f) = force {
            c = f;
        }
        if let Some(s) = src.as_ref() {
            if let Some((t, bound)) = s.solo() {
                if t < st.th.len() && st.th[t].solo_mark.is_none() {
                    st.th[t].solo_mark = Some(bound);
                }
            }
        }
        st.source = src;
        let multi = st.th.len() > 2;
        st.steps.push(StepInfo { chosen: c, enabled: enabled.clone(), cont, spin, multi });
        st.step += 1;
        st.granted = Some(c);
        st.th[c].status = Status::Running;
        st.last = Some(c);
        if Some(c) != me {
            self.cvs[c].notify_all();
        }
    }

    /// Controller: waits for every thread to reach its first scheduling point, starts the run and
    /// waits for its outcome.
    pub fn drive(&self) -> Outcome {
        let mut st = self.lock();
        loop {
            if !st.th.iter().any(|th| th.status == Status::NotStarted) {
                break;
            }
            st = match self.ctl.wait(st) {
                Ok(g) => g,
                Err(p) => p.into_inner(),
            };
        }
        st.started = true;
        self.schedule_next(&mut st, None);
        loop {
            if let Some(o) = st.outcome.clone() {
                return o;
            }
            st = match self.ctl.wait(st) {
                Ok(g) => g,
                Err(p) => p.into_inner(),
            };
        }
    }

    pub fn take_source(&self) -> (Option<Box<dyn Source>>, Vec<StepInfo>) {
        let mut st = self.lock();
        (st.source.take(), std::mem::take(&mut st.steps))
    }

    /// Frees quarantined blocks and returns the logs
    pub fn end_run(&self) -> (Vec<Value>, Vec<OpRec>) {
        let mut st = self.lock();
        st.active = false;
        st.quarantine_on = false;
        let q = std::mem::take(&mut st.quarantine);
        for (addr, bytes, align) in q {
            if bytes > 0 {
                unsafe {
                    std::alloc::dealloc(
                        addr as *mut u8,
                        std::alloc::Layout::from_size_align(bytes, align).unwrap(),
                    );
                }
            }
        }
        (std::mem::take(&mut st.api), std::mem::take(&mut st.ops))
    }

    pub fn log_api(&self, v: Value) {
        let _h = crate::heap::harness();
        let mut st = self.lock();
        if st.abort || st.mute {
            return;
        }
        st.api.push(v);
    }

    /// Scheduling point. Returns when this thread holds the baton.
    pub fn sched(&self, kind: K, addr: usize, arg: usize) {
        let _h = crate::heap::harness();
        let tid = match TID.with(|c| c.get()) {
            Some(t) => t,
            None => return,
        };
        let mut st = self.lock();
        if st.abort || !st.active {
            return;
        }
        if st.is_transparent(kind, addr, arg) {
            return;
        }
        {
            let th = &mut st.th[tid];
            th.status = Status::Pending;
            th.pend = Some(Pend { kind, addr, arg });
        }
        if st.granted == Some(tid) {
            st.granted = None;
        }
        let my_gen = st.gen;
        if st.started {
            self.schedule_next(&mut st, Some(tid));
        } else {
            self.ctl.notify_all();
        }
        loop {
            if st.gen == my_gen && !st.abort && st.granted == Some(tid) && st.th[tid].status == Status::Running {
                break;
            }
            // a thread of an aborted run (stuck, or an earlier generation) is never resumed
            st = match self.cvs[tid].wait(st) {
                Ok(g) => g,
                Err(p) => p.into_inner(),
            };
        }
    }

    /// Report of a performed op
    pub fn done(&self, kind: K, addr: usize, arg: usize, val: usize, ok: bool) {
        let _h = crate::heap::harness();
        let tid = match TID.with(|c| c.get()) {
            Some(t) => t,
            None => return,
        };
        let mut st = self.lock();
        if st.abort || !st.active {
            return;
        }
        if kind == K::Shim(OpKind::Store) && addr != 0 && addr == st.mm_epoch_addr {
            st.cur_epoch = val;
        }
        if kind == K::Shim(OpKind::Store) && st.tokens.contains_key(&addr) {
            st.tokens.insert(addr, val);
        }
        if st.mm_trace {
            st.mm_event(tid, kind, addr, val, ok);
        }
        if addr != 0 {
            if addr == st.gptr_addr {
                if kind == K::Shim(OpKind::Cas) && st.th[tid].risky != 0 && st.active && !st.abort {
                    // MQMemImplMC, mutant AnnounceAfterLoad: the thread acknowledged an epoch change while it held a
                    // stream list and now goes on working from that list (compare-exchange without a fresh load)
                    let blk = st.th[tid].risky;
                    st.api.push(json!({"e":"lateannounce","t":tid,"blk":(blk & 0x3fff_ffff)}));
                }
                st.th[tid].risky = 0;
                match kind {
                    K::Shim(OpKind::Load) => st.th[tid].hold = val,
                    K::Shim(OpKind::Cas) if !ok => st.th[tid].hold = val,
                    _ => {}
                }
            } else if addr == st.signal_addr && kind == K::Shim(OpKind::Load) {
                // a new library operation starts: nothing is held over from the previous one
                st.th[tid].hold = 0;
                st.th[tid].risky = 0;
            } else if kind == K::Shim(OpKind::Store) && st.th[tid].hold != 0 && st.tokens.contains_key(&addr) {
                st.th[tid].risky = st.th[tid].hold;
            } else if addr == st.mm_lock_addr && kind == K::Shim(OpKind::MutexUnlock) {
                // sections under the manager's lock are never entered while a list is still in use
                st.th[tid].hold = 0;
            }
        }
        if st.is_transparent(kind, addr, arg) {
            return;
        }
        let mut ro = kind.read_only(ok);
        if let K::Shim(k) = kind {
            match k {
                OpKind::Store => {
                    if st.lastval.get(&addr) == Some(&val) {
                        ro = true;
                    }
                    st.lastval.insert(addr, val);
                    if addr != 0 && addr == st.mm_epoch_addr {
                        st.cur_epoch = val;
                    }
                }
                OpKind::Load => {
                    st.lastval.insert(addr, val);
                }
                OpKind::Cas | OpKind::FetchAdd | OpKind::FetchSub | OpKind::FetchOr | OpKind::FetchAnd => {
                    st.lastval.remove(&addr);
                }
                _ => {}
            }
        }
        {
            let th = &mut st.th[tid];
            th.nops += 1;
            th.call_ops += 1;
            if ro {
                th.ro_streak += 1;
            } else {
                th.ro_streak = 0;
            }
        }
        if ro {
            st.since_progress += 1;
            st.th[tid].since += 1;
        } else {
            st.since_progress = 0;
            for th in st.th.iter_mut() {
                th.since = 0;
            }
        }
        match kind {
            K::Shim(OpKind::MutexLock) => {
                st.held.insert(addr);
            }
            K::Shim(OpKind::MutexTryLock) => {
                if ok {
                    st.held.insert(addr);
                }
            }
            K::Shim(OpKind::MutexUnlock) => {
                st.held.remove(&addr);
            }
            K::Shim(OpKind::CvWait) => {
                st.held.remove(&arg);
                st.th[tid].notified = false;
                st.cvwait.entry(addr).or_default().push(tid);
            }
            K::Shim(OpKind::CvNotifyAll) => {
                if val == 1 {
                    // notify_one: a single waiter (the longest waiting one) is woken
                    let w = st.cvwait.get_mut(&addr).and_then(|q| if q.is_empty() { None } else { Some(q.remove(0)) });
                    if let Some(w) = w {
                        st.th[w].notified = true;
                    }
                } else {
                    let ws = st.cvwait.remove(&addr).unwrap_or_default();
                    for w in ws {
                        st.th[w].notified = true;
                    }
                }
            }
            K::Shim(OpKind::CvWake) => {
                st.held.insert(arg);
            }
            _ => {}
        }
        // epoch protocol: the published stream list may only be read by a handle that still owns its token
        if addr != 0 && addr == st.gptr_addr && st.th[tid].tokenless && st.live_tokens > 0 {
            st.th[tid].tokenless = false;
            st.api.push(json!({"e":"tokenless","t":tid,"k":kind.name()}));
        }
        // an op on memory that was already released is a use-after-free
        if matches!(kind, K::Shim(_)) && addr != 0 {
            let mut hit = None;
            for (qa, qb, _) in st.quarantine.iter() {
                if addr >= *qa && addr < *qa + *qb {
                    hit = Some(*qa);
                    break;
                }
            }
            if let Some(qa) = hit {
                st.api.push(json!({"e":"uaf","t":tid,"k":kind.name(),"blk":(qa & 0x3fff_ffff)}));
            }
        }
        if st.record_ops {
            let phase = st.phase;
            st.ops.push(OpRec { t: tid, kind, addr, arg, val, ok, phase });
        }
    }

    pub fn thread_finished(&self) {
        let tid = match TID.with(|c| c.get()) {
            Some(t) => t,
            None => return,
        };
        let mut st = self.lock();
        st.th[tid].status = Status::Finished;
        st.th[tid].pend = None;
        if st.granted == Some(tid) {
            st.granted = None;
        }
        if st.started {
            self.schedule_next(&mut st, None);
        } else {
            self.ctl.notify_all();
        }
    }

    pub fn notify_task(&self, task: usize) {
        let mut st = self.lock();
        if st.abort || !st.active {
            return;
        }
        st.task_notified.insert(task, true);
        let t = TID.with(|c| c.get()).map(|x| x as i64).unwrap_or(-1);
        st.api.push(json!({"e":"notify","t":t,"task":task}));
    }

    pub fn clear_task(&self, task: usize) {
        let mut st = self.lock();
        st.task_notified.insert(task, false);
    }

    /// The parked threads of a stuck run are left where they are for the rest of the process
    pub fn abort_run(&self) {
        let mut st = self.lock();
        st.abort = true;
    }

    pub fn finished_threads(&self) -> Vec<bool> {
        let st = self.lock();
        st.th.iter().map(|t| t.status == Status::Finished).collect()
    }
}

impl vh::Runtime for Rt {
    fn before(&self, kind: OpKind, addr: usize, arg: usize) {
        self.sched(K::Shim(kind), addr, arg);
    }
    fn after(&self, kind: OpKind, addr: usize, val: usize, ok: bool) {
        let arg = match kind {
            OpKind::CvWait | OpKind::CvWake => val,
            _ => 0,
        };
        self.done(K::Shim(kind), addr, arg, val, ok);
        if ok && matches!(kind, OpKind::Store | OpKind::Cas) && TID.with(|c| c.get()).is_some() {
            let post = {
                let st = self.lock();
                st.active && !st.abort && !st.transparent_mm && st.post_addrs.contains(&addr)
            };
            if post {
                self.sched(K::PostCommit, 0, 0);
                self.done(K::PostCommit, 0, 0, 0, true);
            }
        }
    }
    fn on_retire(&self, addr: usize) {
        let _h = crate::heap::harness();
        let mut st = self.lock();
        let e = st.cur_epoch;
        st.retired.insert(addr, e);
        st.mm_obj_event("retire", addr);
        if let Some(t) = TID.with(|c| c.get()) {
            if t < st.th.len() && st.th[t].hold == addr {
                st.th[t].hold = 0;
            }
        }
        if st.allocs.get(&addr).map(|a| a.2.contains("MemToken")).unwrap_or(false) {
            st.live_tokens -= 1;
            st.tokens.remove(&addr);
            st.leaving.remove(&addr);
            // from here on the calling handle is no longer protected by the epoch protocol
            if let Some(t) = TID.with(|c| c.get()) {
                if t < st.th.len() {
                    st.th[t].tokenless = true;
                }
            }
        }
    }
    fn on_alloc(&self, addr: usize, bytes: usize, ty: &'static str) {
        let _h = crate::heap::harness();
        let mut st = self.lock();
        if ty.contains("MemToken") {
            st.live_tokens += 1;
            let e = st.cur_epoch;
            st.tokens.insert(addr, e);
        }
        st.alloc_seq += 1;
        let seq = st.alloc_seq;
        st.allocs.insert(addr, (bytes, 0, ty, seq));
        if ty.contains("MemToken") {
            st.mm_obj_event("tokalloc", addr);
        }
    }
    fn on_dealloc(&self, addr: usize, bytes: usize, align: usize) -> bool {
        let _h = crate::heap::harness();
        let mut st = self.lock();
        let known = st.allocs.remove(&addr);
        if st.retired.contains_key(&addr) {
            st.mm_obj_event("release", addr);
            // epoch protocol (MQMemImpl: NoUseAfterFree): nobody is between loading this list and the end of its use
            if st.active && !st.abort {
                let holders: Vec<usize> = (0..st.th.len()).filter(|t| st.th[*t].hold == addr).collect();
                if !holders.is_empty() {
                    st.api.push(json!({"e":"heldfree","blk":(addr & 0x3fff_ffff),"holders":holders}));
                }
            }
        }
        if let Some(e) = st.retired.remove(&addr) {
            // epoch protocol: a block handed over for deferred release may only be released after an epoch
            // change that followed the hand-over (teardown, when no handle owns a token any more, excepted)
            if e >= st.cur_epoch && st.live_tokens > 0 && st.active && !st.abort {
                let (ce, lt) = (st.cur_epoch, st.live_tokens);
                st.api.push(json!({"e":"earlyfree","blk":(addr & 0x3fff_ffff),"retired_at":e,"epoch":ce,"tokens":lt}));
            } else if st.live_tokens > 0 && st.active && !st.abort {
                // ... and only when every live token (handles that are just leaving excepted) carries that epoch
                let ce = st.cur_epoch;
                let stale = st.tokens.iter().filter(|(a, v)| **v != ce && !st.leaving.contains(*a)).count();
                if stale > 0 {
                    let lt = st.live_tokens;
                    st.api.push(json!({"e":"earlyfree","blk":(addr & 0x3fff_ffff),"retired_at":e,"epoch":ce,
                                       "tokens":lt,"stale_tokens":stale}));
                }
            }
        }
        if known.is_none() && st.active && !st.abort {
            st.api.push(json!({"e":"badfree","blk":(addr & 0x3fff_ffff)}));
        }
        if st.quarantine_on && !st.abort {
            if st.quarantine.iter().any(|q| q.0 == addr) {
                st.api.push(json!({"e":"doublefree","blk":(addr & 0x3fff_ffff)}));
                return true;
            }
            st.quarantine.push((addr, bytes, align));
            true
        } else {
            false
        }
    }
}

/// Installs the runtime on the calling thread (scheduled iff `tid` is given)
pub fn enter(tid: Option<usize>) {
    TID.with(|c| c.set(tid));
    vh::set_runtime(Some(rt()));
}

pub fn leave() {
    TID.with(|c| c.set(None));
    vh::set_runtime(None);
}
