//! Ledger payload: every instance has a serial; births, clones (with a scheduling point in the
//! middle), in-place views and drops are logged so that the trace specification can decide
//! exactly-once destruction (C05) and stability during clone/view (C04).

use crate::rt::{rt, K, TID};
use serde_json::json;
use std::sync::atomic::{AtomicU64, Ordering};

static NEXT_SERIAL: AtomicU64 = AtomicU64::new(1);
/// scenarios may ask for a scheduling point inside Drop (a destructor of arbitrary duration)
pub static DROP_YIELD: std::sync::atomic::AtomicBool = std::sync::atomic::AtomicBool::new(false);
const MAGIC: u64 = 0x5bd1_e995_9e37_79b9;

pub fn reset_serials() {
    NEXT_SERIAL.store(1, Ordering::SeqCst);
}

#[inline]
fn chk(id: u64, serial: u64) -> u64 {
    id.rotate_left(17) ^ serial.rotate_left(3) ^ MAGIC
}

fn tid() -> i64 {
    TID.with(|c| c.get()).map(|x| x as i64).unwrap_or(0)
}

pub struct P {
    pub id: u64,
    pub serial: u64,
    pub chk: u64,
}

impl P {
    pub fn new(id: u64) -> P {
        let _h = crate::heap::harness();
        let serial = NEXT_SERIAL.fetch_add(1, Ordering::SeqCst);
        rt().log_api(json!({"e":"born","t":tid(),"s":serial,"v":id}));
        P { id, serial, chk: chk(id, serial) }
    }

    #[inline]
    fn snapshot(&self) -> (u64, u64, u64) {
        unsafe {
            (
                std::ptr::read_volatile(&self.id),
                std::ptr::read_volatile(&self.serial),
                std::ptr::read_volatile(&self.chk),
            )
        }
    }

    /// Observes the value in place for a while (used by view closures); returns the id seen
    pub fn observe(&self, what: &str) -> u64 {
        let _h = crate::heap::harness();
        let a = self.snapshot();
        let valid = a.2 == chk(a.0, a.1);
        let s = if valid { a.1 } else { 0 };
        rt().log_api(json!({"e":format!("{}b", what),"t":tid(),"s":s,"valid":valid}));
        rt().sched(K::PayloadYield, 0, 0);
        rt().done(K::PayloadYield, 0, 0, 0, true);
        let b = self.snapshot();
        let same = a == b;
        rt().log_api(json!({"e":format!("{}e", what),"t":tid(),"s":s,"ok":valid && same}));
        a.0
    }
}

impl Clone for P {
    fn clone(&self) -> P {
        let _h = crate::heap::harness();
        let a = self.snapshot();
        let valid = a.2 == chk(a.0, a.1);
        let s = if valid { a.1 } else { 0 };
        rt().log_api(json!({"e":"cb","t":tid(),"s":s,"valid":valid}));
        rt().sched(K::PayloadYield, 0, 0);
        rt().done(K::PayloadYield, 0, 0, 0, true);
        let b = self.snapshot();
        let same = a == b;
        let n = NEXT_SERIAL.fetch_add(1, Ordering::SeqCst);
        rt().log_api(json!({"e":"ce","t":tid(),"s":s,"n":n,"v":a.0,"ok":valid && same}));
        P { id: a.0, serial: n, chk: chk(a.0, n) }
    }
}

impl Drop for P {
    fn drop(&mut self) {
        let _h = crate::heap::harness();
        let a = self.snapshot();
        let valid = a.2 == chk(a.0, a.1);
        let s = if valid { a.1 } else { 0 };
        rt().log_api(json!({"e":"drop","t":tid(),"s":s,"valid":valid}));
        if DROP_YIELD.load(Ordering::Relaxed) {
            // the destructor takes a while: whatever is written over this object meanwhile is wrecked below
            rt().sched(K::PayloadYield, 0, 0);
            rt().done(K::PayloadYield, 0, 0, 0, true);
        }
        self.id = 0xdddd_dddd_dddd_dddd;
        self.serial = 0xdddd_dddd_dddd_dddd;
        self.chk = 0;
    }
}
