//! The twelve public handle types behind one enum, and the primitive operations on them.

use crate::payload::P;
use crate::rt::{rt, K};
use futures::executor::{self, Notify};
use futures::{future, Async, AsyncSink, Poll, Sink, Stream};
use multiqueue2::wait::{BlockingWait, BusyWait, YieldingWait};
use multiqueue2::*;
use std::sync::mpsc::{TryRecvError, TrySendError};
use std::sync::Arc;

pub type VF = Box<dyn FnMut(&P) -> u64 + Send>;

pub fn view_fn() -> VF {
    Box::new(|p: &P| p.observe("v"))
}

pub enum H {
    BS(BroadcastSender<P>),
    BR(BroadcastReceiver<P>),
    BU(BroadcastUniReceiver<P>),
    BFS(BroadcastFutSender<P>),
    BFR(BroadcastFutReceiver<P>),
    BFU(BroadcastFutUniReceiver<u64, VF, P>),
    MS(MPMCSender<P>),
    MR(MPMCReceiver<P>),
    MU(MPMCUniReceiver<P>),
    MFS(MPMCFutSender<P>),
    MFR(MPMCFutReceiver<P>),
    MFU(MPMCFutUniReceiver<u64, VF, P>),
}

#[derive(Debug, Clone, PartialEq)]
pub enum Res {
    Ok,
    /// refused send: (id, same instance handed back)
    Full(u64, bool),
    DiscV(u64, bool),
    Val(u64),
    Empty,
    Disc,
    True,
    False,
    Err,
    /// a non-blocking iterator ended
    End,
    Unsupported,
}

impl Res {
    pub fn to_json(&self) -> (String, i64, bool) {
        match self {
            Res::Ok => ("Ok".into(), -1, true),
            Res::Full(v, s) => ("Full".into(), *v as i64, *s),
            Res::DiscV(v, s) => ("Disc".into(), *v as i64, *s),
            Res::Val(v) => ("Val".into(), *v as i64, true),
            Res::Empty => ("Empty".into(), -1, true),
            Res::Disc => ("Disc".into(), -1, true),
            Res::True => ("True".into(), -1, true),
            Res::False => ("False".into(), -1, true),
            Res::Err => ("Err".into(), -1, true),
            Res::End => ("End".into(), -1, true),
            Res::Unsupported => ("Unsupported".into(), -1, true),
        }
    }
}

fn take(p: P) -> u64 {
    let id = p.id;
    drop(p);
    id
}

fn send_res(r: Result<(), TrySendError<P>>, serial: u64) -> Res {
    match r {
        Ok(()) => Res::Ok,
        Err(TrySendError::Full(p)) => {
            let same = p.serial == serial;
            Res::Full(take(p), same)
        }
        Err(TrySendError::Disconnected(p)) => {
            let same = p.serial == serial;
            Res::DiscV(take(p), same)
        }
    }
}

fn recv_res(r: Result<u64, TryRecvError>) -> Res {
    match r {
        Ok(v) => Res::Val(v),
        Err(TryRecvError::Empty) => Res::Empty,
        Err(TryRecvError::Disconnected) => Res::Disc,
    }
}

struct HNotify;
impl Notify for HNotify {
    fn notify(&self, id: usize) {
        let _h = crate::heap::harness();
        rt().notify_task(id);
    }
}

/// Runs `f` inside a futures-0.1 task whose notifications are reported to the runtime
pub fn in_task<R>(task: usize, f: impl FnOnce() -> R) -> R {
    let mut f = Some(f);
    let mut out = None;
    {
        let mut sp = executor::spawn(future::poll_fn(|| -> Poll<(), ()> {
            out = Some((f.take().unwrap())());
            Ok(Async::Ready(()))
        }));
        let nh = Arc::new(HNotify);
        let _ = sp.poll_future_notify(&nh, task);
    }
    out.unwrap()
}

pub fn wait_task(task: usize) {
    rt().sched(K::TaskWait, task, 0);
    rt().done(K::TaskWait, task, 0, 0, true);
}

pub fn create(flavour: &str, fut: bool, cap: u64, wait: &str, spins: Option<(usize, usize)>) -> (H, H) {
    match (flavour, fut) {
        ("bcast", false) => {
            let (s, r) = match wait {
                "busy" => broadcast_queue_with(cap, BusyWait::new()),
                "yield" => broadcast_queue_with(cap, YieldingWait::new()),
                "yield00" => broadcast_queue_with(cap, YieldingWait::with_spins(0, 0)),
                "yield11" => broadcast_queue_with(cap, YieldingWait::with_spins(1, 1)),
                "block00" => broadcast_queue_with(cap, BlockingWait::with_spins(0, 0)),
                "block11" => broadcast_queue_with(cap, BlockingWait::with_spins(1, 1)),
                "block" => broadcast_queue_with(cap, BlockingWait::new()),
                _ => broadcast_queue(cap),
            };
            (H::BS(s), H::BR(r))
        }
        ("mpmc", false) => {
            let (s, r) = match wait {
                "busy" => mpmc_queue_with(cap, BusyWait::new()),
                "yield" => mpmc_queue_with(cap, YieldingWait::new()),
                "yield00" => mpmc_queue_with(cap, YieldingWait::with_spins(0, 0)),
                "yield11" => mpmc_queue_with(cap, YieldingWait::with_spins(1, 1)),
                "block00" => mpmc_queue_with(cap, BlockingWait::with_spins(0, 0)),
                "block11" => mpmc_queue_with(cap, BlockingWait::with_spins(1, 1)),
                "block" => mpmc_queue_with(cap, BlockingWait::new()),
                _ => mpmc_queue(cap),
            };
            (H::MS(s), H::MR(r))
        }
        ("bcast", true) => {
            let (s, r) = match spins {
                Some((a, b)) => broadcast_fut_queue_with(cap, a, b),
                None => broadcast_fut_queue(cap),
            };
            (H::BFS(s), H::BFR(r))
        }
        ("mpmc", true) => {
            let (s, r) = mpmc_fut_queue(cap);
            (H::MFS(s), H::MFR(r))
        }
        _ => panic!("unknown flavour"),
    }
}

impl H {
    pub fn kind(&self) -> &'static str {
        match self {
            H::BS(_) => "BS",
            H::BR(_) => "BR",
            H::BU(_) => "BU",
            H::BFS(_) => "BFS",
            H::BFR(_) => "BFR",
            H::BFU(_) => "BFU",
            H::MS(_) => "MS",
            H::MR(_) => "MR",
            H::MU(_) => "MU",
            H::MFS(_) => "MFS",
            H::MFR(_) => "MFR",
            H::MFU(_) => "MFU",
        }
    }

    pub fn is_sender(&self) -> bool {
        matches!(self, H::BS(_) | H::BFS(_) | H::MS(_) | H::MFS(_))
    }

    pub fn layout(&self) -> Vec<multiqueue2::verif_hooks::Loc> {
        match self {
            H::BS(x) => x.verif_layout(),
            H::BR(x) => x.verif_layout(),
            H::BU(x) => x.verif_layout(),
            H::BFS(x) => x.verif_layout(),
            H::BFR(x) => x.verif_layout(),
            H::BFU(x) => x.verif_layout(),
            H::MS(x) => x.verif_layout(),
            H::MR(x) => x.verif_layout(),
            H::MU(x) => x.verif_layout(),
            H::MFS(x) => x.verif_layout(),
            H::MFR(x) => x.verif_layout(),
            H::MFU(x) => x.verif_layout(),
        }
    }

    pub fn try_send(&self, p: P) -> Res {
        let serial = p.serial;
        match self {
            H::BS(s) => send_res(s.try_send(p), serial),
            H::BFS(s) => send_res(s.try_send(p), serial),
            H::MS(s) => send_res(s.try_send(p), serial),
            H::MFS(s) => send_res(s.try_send(p), serial),
            _ => {
                drop(p);
                Res::Unsupported
            }
        }
    }

    /// Sink::start_send + the Ready/NotReady/Err mapping (must run inside a task)
    pub fn start_send(&mut self, p: P) -> Res {
        let serial = p.serial;
        fn map(r: Result<AsyncSink<P>, std::sync::mpsc::SendError<P>>, serial: u64) -> Res {
            match r {
                Ok(AsyncSink::Ready) => Res::Ok,
                Ok(AsyncSink::NotReady(p)) => {
                    let same = p.serial == serial;
                    Res::Full(take(p), same)
                }
                Err(std::sync::mpsc::SendError(p)) => {
                    let same = p.serial == serial;
                    Res::DiscV(take(p), same)
                }
            }
        }
        match self {
            H::BFS(s) => map(s.start_send(p), serial),
            H::MFS(s) => map(s.start_send(p), serial),
            _ => {
                drop(p);
                Res::Unsupported
            }
        }
    }

    pub fn poll_complete(&mut self) -> Res {
        match self {
            H::BFS(s) => match s.poll_complete() {
                Ok(Async::Ready(())) => Res::Ok,
                _ => Res::Err,
            },
            H::MFS(s) => match s.poll_complete() {
                Ok(Async::Ready(())) => Res::Ok,
                _ => Res::Err,
            },
            _ => Res::Unsupported,
        }
    }

    pub fn try_recv(&mut self) -> Res {
        match self {
            H::BR(r) => recv_res(r.try_recv().map(take)),
            H::BU(r) => recv_res(r.try_recv().map(take)),
            H::BFR(r) => recv_res(r.try_recv().map(take)),
            H::BFU(r) => recv_res(r.try_recv()),
            H::MR(r) => recv_res(r.try_recv().map(take)),
            H::MU(r) => recv_res(r.try_recv().map(take)),
            H::MFR(r) => recv_res(r.try_recv().map(take)),
            H::MFU(r) => recv_res(r.try_recv()),
            _ => Res::Unsupported,
        }
    }

    pub fn recv(&mut self) -> Res {
        fn m(r: Result<u64, std::sync::mpsc::RecvError>) -> Res {
            match r {
                Ok(v) => Res::Val(v),
                Err(_) => Res::Disc,
            }
        }
        match self {
            H::BR(r) => m(r.recv().map(take)),
            H::BU(r) => m(r.recv().map(take)),
            H::BFR(r) => m(r.recv().map(take)),
            H::BFU(r) => m(r.recv()),
            H::MR(r) => m(r.recv().map(take)),
            H::MU(r) => m(r.recv().map(take)),
            H::MFR(r) => m(r.recv().map(take)),
            H::MFU(r) => m(r.recv()),
            _ => Res::Unsupported,
        }
    }

    pub fn try_view(&mut self) -> Res {
        match self {
            H::BU(r) => recv_res(r.try_recv_view(|p| p.observe("v")).map_err(|e| e.1)),
            H::MU(r) => recv_res(r.try_recv_view(|p| p.observe("v")).map_err(|e| e.1)),
            H::BFU(r) => recv_res(r.try_recv()),
            H::MFU(r) => recv_res(r.try_recv()),
            _ => Res::Unsupported,
        }
    }

    pub fn view(&mut self) -> Res {
        match self {
            H::BU(r) => match r.recv_view(|p| p.observe("v")) {
                Ok(v) => Res::Val(v),
                Err(_) => Res::Disc,
            },
            H::MU(r) => match r.recv_view(|p| p.observe("v")) {
                Ok(v) => Res::Val(v),
                Err(_) => Res::Disc,
            },
            H::BFU(_) | H::MFU(_) => self.recv(),
            _ => Res::Unsupported,
        }
    }

    /// Stream::poll (must run inside a task)
    pub fn poll(&mut self) -> Res {
        fn m(r: Poll<Option<u64>, ()>) -> Res {
            match r {
                Ok(Async::Ready(Some(v))) => Res::Val(v),
                Ok(Async::Ready(None)) => Res::Disc,
                Ok(Async::NotReady) => Res::Empty,
                Err(()) => Res::Err,
            }
        }
        match self {
            H::BFR(r) => m(r.poll().map(|a| a.map(|o| o.map(take)))),
            H::MFR(r) => m(r.poll().map(|a| a.map(|o| o.map(take)))),
            H::BFU(r) => m(r.poll()),
            H::MFU(r) => m(r.poll()),
            _ => Res::Unsupported,
        }
    }

    pub fn add_stream(&self) -> Option<H> {
        match self {
            H::BR(r) => Some(H::BR(r.add_stream())),
            H::BFR(r) => Some(H::BFR(r.add_stream())),
            H::BFU(r) => Some(H::BFU(r.add_stream_with(view_fn()))),
            H::MFU(r) => Some(H::MFU(r.add_stream_with(view_fn()))),
            _ => None,
        }
    }

    pub fn dup(&self) -> Option<H> {
        match self {
            H::BS(s) => Some(H::BS(s.clone())),
            H::BR(s) => Some(H::BR(s.clone())),
            H::BFS(s) => Some(H::BFS(s.clone())),
            H::BFR(s) => Some(H::BFR(s.clone())),
            H::MS(s) => Some(H::MS(s.clone())),
            H::MR(s) => Some(H::MR(s.clone())),
            H::MFS(s) => Some(H::MFS(s.clone())),
            H::MFR(s) => Some(H::MFR(s.clone())),
            _ => None,
        }
    }

    pub fn unsubscribe(self) -> Res {
        fn b(x: bool) -> Res {
            if x {
                Res::True
            } else {
                Res::False
            }
        }
        match self {
            H::BS(s) => {
                s.unsubscribe();
                Res::Ok
            }
            H::BFS(s) => {
                s.unsubscribe();
                Res::Ok
            }
            H::MS(s) => {
                s.unsubscribe();
                Res::Ok
            }
            H::MFS(s) => {
                s.unsubscribe();
                Res::Ok
            }
            H::BR(r) => b(r.unsubscribe()),
            H::BU(r) => {
                r.unsubscribe();
                Res::Ok
            }
            H::BFR(r) => b(r.unsubscribe()),
            H::BFU(r) => b(r.unsubscribe()),
            H::MR(r) => b(r.unsubscribe()),
            H::MU(r) => b(r.unsubscribe()),
            H::MFR(r) => b(r.unsubscribe()),
            H::MFU(r) => b(r.unsubscribe()),
        }
    }

    /// Ok(new handle) on success, Err(same handle) otherwise
    pub fn into_single(self) -> Result<H, H> {
        match self {
            H::BR(r) => r.into_single().map(H::BU).map_err(H::BR),
            H::MR(r) => r.into_single().map(H::MU).map_err(H::MR),
            H::BFR(r) => r.into_single(view_fn()).map(H::BFU).map_err(|e| H::BFR(e.1)),
            H::MFR(r) => r.into_single(view_fn()).map(H::MFU).map_err(|e| H::MFR(e.1)),
            other => Err(other),
        }
    }

    pub fn into_multi(self) -> Result<H, H> {
        match self {
            H::BU(r) => Ok(H::BR(r.into_multi())),
            H::MU(r) => Ok(H::MR(r.into_multi())),
            H::BFU(r) => Ok(H::BFR(r.into_multi())),
            H::MFU(r) => Ok(H::MFR(r.into_multi())),
            other => Err(other),
        }
    }

    pub fn transform(self) -> Result<H, H> {
        match self {
            H::BFU(r) => Ok(H::BFU(r.transform_operation(view_fn()))),
            H::MFU(r) => Ok(H::MFU(r.transform_operation(view_fn()))),
            other => Err(other),
        }
    }

    /// One step of a non-blocking iterator over the handle (None = iterator ended)
    pub fn try_iter_next(&mut self) -> Option<u64> {
        match self {
            H::BR(r) => r.try_iter().next().map(take),
            H::MR(r) => r.try_iter().next().map(take),
            H::BU(r) => r.try_iter_with(|p| p.observe("v")).next(),
            H::MU(r) => r.try_iter_with(|p| p.observe("v")).next(),
            _ => None,
        }
    }
}

/// Owning (blocking) iterators
pub enum It {
    B(Box<dyn Iterator<Item = u64> + Send>),
}

impl H {
    pub fn into_blocking_iter(self, with_view: bool) -> Result<It, H> {
        match self {
            H::BR(r) => Ok(It::B(Box::new(r.into_iter().map(take)))),
            H::MR(r) => Ok(It::B(Box::new(r.into_iter().map(take)))),
            H::BU(r) => {
                if with_view {
                    Ok(It::B(Box::new(r.iter_with(|p: &P| p.observe("v")))))
                } else {
                    Ok(It::B(Box::new(r.into_iter().map(take))))
                }
            }
            H::MU(r) => {
                if with_view {
                    Ok(It::B(Box::new(r.iter_with(|p: &P| p.observe("v")))))
                } else {
                    Ok(It::B(Box::new(r.into_iter().map(take))))
                }
            }
            other => Err(other),
        }
    }
}
