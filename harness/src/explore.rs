//! Schedule sources: replay (free mode), preemption-bounded DFS, random walks, PCT.

use crate::exec::{default_pick, Source, StepInfo, View};
use crate::rt::K;
use rand::rngs::StdRng;
use rand::{Rng, SeedableRng};

pub struct Replay {
    pub sched: Vec<usize>,
    pub pos: usize,
    pub skipped: std::sync::Arc<std::sync::atomic::AtomicUsize>,
}

impl Replay {
    pub fn new(sched: Vec<usize>) -> Replay {
        Replay { sched, pos: 0, skipped: Default::default() }
    }
}

impl Source for Replay {
    fn pick(&mut self, v: &View) -> usize {
        if v.nthreads <= 2 {
            // sequential phase (setup / final): nothing to choose, nothing consumed
            return v.enabled[0];
        }
        while self.pos < self.sched.len() {
            let c = self.sched[self.pos];
            self.pos += 1;
            if v.enabled.contains(&c) {
                return c;
            }
            self.skipped.fetch_add(1, std::sync::atomic::Ordering::Relaxed);
        }
        default_pick(v)
    }
}

pub struct Prefix {
    pub prefix: Vec<usize>,
}

impl Source for Prefix {
    fn pick(&mut self, v: &View) -> usize {
        if v.step < self.prefix.len() {
            self.prefix[v.step]
        } else {
            default_pick(v)
        }
    }
}

pub struct Uniform {
    pub rng: StdRng,
    /// probability of considering a switch at a step
    pub p: f64,
}

impl Uniform {
    pub fn new(seed: u64, p: f64) -> Uniform {
        Uniform { rng: StdRng::seed_from_u64(seed), p }
    }
}

impl Source for Uniform {
    fn pick(&mut self, v: &View) -> usize {
        if let Some(c) = v.cont {
            if !self.rng.gen_bool(self.p) {
                return c;
            }
        }
        v.enabled[self.rng.gen_range(0..v.enabled.len())]
    }
}

/// PCT: random priorities, d-1 priority change points at random steps
pub struct Pct {
    pub prio: Vec<i64>,
    pub change: Vec<usize>,
    pub low: i64,
}

impl Pct {
    pub fn new(seed: u64, nthreads: usize, depth: usize, est_len: usize) -> Pct {
        let mut rng = StdRng::seed_from_u64(seed);
        let mut prio: Vec<i64> = (0..nthreads as i64).map(|i| 100 + i).collect();
        for i in (1..prio.len()).rev() {
            let j = rng.gen_range(0..=i);
            prio.swap(i, j);
        }
        let change = (0..depth.saturating_sub(1)).map(|_| rng.gen_range(0..est_len.max(1))).collect();
        Pct { prio, change, low: 50 }
    }
}

impl Source for Pct {
    fn pick(&mut self, v: &View) -> usize {
        while self.prio.len() < v.nthreads {
            self.prio.push(100);
        }
        let best = *v.enabled.iter().max_by_key(|&&t| self.prio[t]).unwrap();
        if self.change.contains(&v.step) {
            self.low -= 1;
            self.prio[best] = self.low;
            return *v.enabled.iter().max_by_key(|&&t| self.prio[t]).unwrap();
        }
        // a spinning thread of highest priority would starve the others: respect free switches
        if v.cont.is_none() {
            if let Some(l) = v.last {
                if best == l && v.enabled.len() > 1 {
                    self.low -= 1;
                    self.prio[best] = self.low;
                    return *v.enabled.iter().max_by_key(|&&t| self.prio[t]).unwrap();
                }
            }
        }
        best
    }
}

struct Frame {
    chosen: usize,
    alts: Vec<usize>,
    cont: Option<usize>,
    pre_before: usize,
}

/// Stateless preemption-bounded depth-first enumeration of schedules
pub struct Dfs {
    frames: Vec<Frame>,
    pub bound: usize,
    started: bool,
    pub exhausted: bool,
    /// steps that are never varied (drift-directed exploration starts below a given prefix)
    fixed: Vec<usize>,
}

fn cost(cont: Option<usize>, t: usize) -> usize {
    match cont {
        Some(c) if c != t => 1,
        _ => 0,
    }
}

impl Dfs {
    pub fn new(bound: usize) -> Dfs {
        Dfs { frames: Vec::new(), bound, started: false, exhausted: false, fixed: Vec::new() }
    }

    pub fn with_fixed(bound: usize, fixed: Vec<usize>) -> Dfs {
        Dfs { frames: Vec::new(), bound, started: false, exhausted: false, fixed }
    }

    /// The prefix to force on the next run; None when the enumeration is complete
    pub fn next_prefix(&mut self) -> Option<Vec<usize>> {
        if !self.started {
            self.started = true;
            return Some(self.fixed.clone());
        }
        while let Some(f) = self.frames.last_mut() {
            if let Some(a) = f.alts.pop() {
                f.chosen = a;
                return Some(self.frames.iter().map(|f| f.chosen).collect());
            }
            self.frames.pop();
        }
        self.exhausted = true;
        None
    }

    /// Records the run that followed the last prefix
    pub fn record(&mut self, steps: &[StepInfo]) {
        let have = self.frames.len();
        // the forced prefix must have been followed
        for (i, f) in self.frames.iter().enumerate() {
            if i >= steps.len() || steps[i].chosen != f.chosen {
                // non-determinism or a shorter run: cut the stack here
                self.frames.truncate(i);
                return;
            }
        }
        let mut pre = match self.frames.last() {
            Some(f) => f.pre_before + cost(f.cont, f.chosen),
            None => 0,
        };
        for (i, s) in steps.iter().enumerate().skip(have) {
            let mut alts = Vec::new();
            if i < self.fixed.len() {
                // inside the fixed prefix: no alternatives, no preemption accounting
                self.frames.push(Frame { chosen: s.chosen, alts, cont: s.cont, pre_before: 0 });
                continue;
            }
            for &t in &s.enabled {
                if t != s.chosen && Some(t) != s.spin && pre + cost(s.cont, t) <= self.bound {
                    alts.push(t);
                }
            }
            self.frames.push(Frame { chosen: s.chosen, alts, cont: s.cont, pre_before: pre });
            pre += cost(s.cont, s.chosen);
        }
    }
}

/// The same set of schedules as `Dfs` (preemption bound), enumerated from a worklist in random order: when the
/// run cap ends the enumeration early, the preemption points tried are spread over the whole run instead of
/// clustering at its end. Meant for bound <= 1 (every pending prefix is kept in memory).
pub struct Worklist {
    queue: Vec<(Vec<u8>, usize)>,
    cur: (Vec<u8>, usize),
    pub bound: usize,
    started: bool,
    pub exhausted: bool,
    /// children were discarded because the worklist was full: the enumeration is a sample
    pub dropped: bool,
    /// when set, only this thread is ever preempted (switches away from other threads happen at their free
    /// points only): a deeper bound on one victim thread stays enumerable
    pub victim: Option<usize>,
    rng: StdRng,
}

const WL_MAX: usize = 150_000;

impl Worklist {
    pub fn new(bound: usize, seed: u64) -> Worklist {
        Worklist { queue: Vec::new(), cur: (Vec::new(), 0), bound, started: false, exhausted: false, dropped: false,
                   victim: None, rng: StdRng::seed_from_u64(seed) }
    }

    pub fn next_prefix(&mut self) -> Option<Vec<usize>> {
        if !self.started {
            self.started = true;
            return Some(Vec::new());
        }
        if self.queue.is_empty() {
            self.exhausted = !self.dropped;
            return None;
        }
        let i = self.rng.gen_range(0..self.queue.len());
        self.cur = self.queue.swap_remove(i);
        Some(self.cur.0.iter().map(|x| *x as usize).collect())
    }

    pub fn record(&mut self, steps: &[StepInfo]) {
        let plen = self.cur.0.len();
        for i in 0..plen {
            if i >= steps.len() || steps[i].chosen != self.cur.0[i] as usize {
                return;
            }
        }
        let mut pre = self.cur.1;
        let chosen: Vec<u8> = steps.iter().map(|s| s.chosen as u8).collect();
        for (i, s) in steps.iter().enumerate().skip(plen) {
            for &t in &s.enabled {
                if t != s.chosen && Some(t) != s.spin && pre + cost(s.cont, t) <= self.bound
                    && (cost(s.cont, t) == 0 || self.victim.is_none() || s.cont == self.victim) {
                    if self.queue.len() >= WL_MAX {
                        // keep a uniform sample: the newcomer replaces a random entry half of the time
                        self.dropped = true;
                        if self.rng.gen_bool(0.5) {
                            continue;
                        }
                        let j = self.rng.gen_range(0..self.queue.len());
                        self.queue.swap_remove(j);
                    }
                    let mut p = chosen[..i].to_vec();
                    p.push(t as u8);
                    self.queue.push((p, pre + cost(s.cont, t)));
                }
            }
            pre += cost(s.cont, s.chosen);
        }
    }
}

pub fn preemptions(steps: &[StepInfo]) -> usize {
    steps.iter().map(|s| cost(s.cont, s.chosen)).sum()
}


/// Freeze schedules (C18): random walk; at chosen moments every thread but one is frozen wherever it
/// is and a thread that is about to start a non-blocking call runs that call alone.
pub struct Freeze {
    pub rng: StdRng,
    pub solo_t: Option<usize>,
    pub started: bool,
    pub bound: usize,
    pub countdown: usize,
}

impl Freeze {
    pub fn new(seed: u64, bound: usize) -> Freeze {
        let mut rng = StdRng::seed_from_u64(seed);
        let countdown = rng.gen_range(1..40);
        Freeze { rng, solo_t: None, started: false, bound, countdown }
    }
}

impl Source for Freeze {
    fn pick(&mut self, v: &View) -> usize {
        if let Some(t) = self.solo_t {
            let me = v.pend.iter().find(|p| p.0 == t);
            match me {
                Some((_, kind, _)) => {
                    if *kind == K::Call && self.started {
                        // the call returned and the thread is at its next call: thaw the others
                        self.solo_t = None;
                        self.started = false;
                        self.countdown = self.rng.gen_range(1..40);
                    } else {
                        self.started = true;
                        return t;
                    }
                }
                None => {
                    // finished or blocked: thaw
                    self.solo_t = None;
                    self.started = false;
                    self.countdown = self.rng.gen_range(1..40);
                }
            }
        }
        // a moment at which some thread is inside a lock-protected section is a good one to freeze everybody
        // (the thread that is about to start a call is not the holder: it is between two calls)
        if self.countdown > 0 && v.held > 0 && v.pend.iter().any(|p| p.1 == K::Call) && self.rng.gen_bool(0.5) {
            self.countdown = 0;
        }
        if self.countdown == 0 {
            // freeze: pick a thread that is about to start a call
            let cands: Vec<usize> = v.pend.iter().filter(|p| p.1 == K::Call).map(|p| p.0).collect();
            if !cands.is_empty() {
                let t = cands[self.rng.gen_range(0..cands.len())];
                self.solo_t = Some(t);
                self.started = false;
                return t;
            }
        } else {
            self.countdown -= 1;
        }
        if let Some(c) = v.cont {
            if !self.rng.gen_bool(0.3) {
                return c;
            }
        }
        v.enabled[self.rng.gen_range(0..v.enabled.len())]
    }
    fn solo(&self) -> Option<(usize, usize)> {
        self.solo_t.map(|t| (t, self.bound))
    }
    fn solo_abort(&mut self) {
        self.solo_t = None;
        self.started = false;
        self.countdown = self.rng.gen_range(1..40);
    }
}
