//! mqh: drives the real multiqueue2 crate under a deterministic scheduler and records traces.

mod exec;
mod explore;
mod handles;
mod heap;
mod payload;
mod rt;

use exec::{Outcome, RunResult, Scenario};
use serde_json::{json, Value};
use std::collections::hash_map::DefaultHasher;
use std::collections::{HashMap, HashSet};
use std::hash::{Hash, Hasher};
use std::io::{BufRead, Write};

use heap::{Counting, LIVE_BYTES};
use std::sync::atomic::Ordering as AO;

#[global_allocator]
static GLOBAL: Counting = Counting;

/// Handle churn without the scheduler: cycles of add_stream / clone / drop / into_single with a fixed set of
/// operating handles; live memory is sampled at checkpoints (C17).
fn churn(args: &[String]) {
    use handles::H;
    use payload::P;
    let family = arg(args, "--family").unwrap_or("bcast").to_string();
    let fut = args.iter().any(|a| a == "--fut");
    let cap: u64 = arg(args, "--cap").and_then(|s| s.parse().ok()).unwrap_or(4);
    let cycles: usize = arg(args, "--cycles").and_then(|s| s.parse().ok()).unwrap_or(10000);
    let early_drop = args.iter().any(|a| a == "--early-drop");
    let traffic = args.iter().any(|a| a == "--traffic");
    // every receiver is dropped first; the remaining sender keeps operating (its sends are refused) while sender
    // handles are cloned and dropped
    let no_recv = args.iter().any(|a| a == "--no-receivers");
    // the long-lived handles fall silent for a dozen cycles every now and then while a helper handle keeps adding
    // and removing streams (their tokens lag, retirements pile up past the hand-over threshold), then resume
    let quiet = args.iter().any(|a| a == "--quiet-bursts");
    let mut out = open_w(arg(args, "--out")).unwrap_or_else(|| Box::new(std::io::sink()));
    rt::enter(None);
    {
        let mut st = rt::rt().lock();
        st.mute = true;
        st.active = false;
        // the harness's own tables must not grow while heap bytes are being compared
        st.allocs.reserve(1 << 14);
        st.retired.reserve(1 << 14);
    }
    let name = format!("churn-{}{}-c{}{}{}", family, if fut { "F" } else { "" }, cap,
                       if early_drop { "-early" } else { "" },
                       if traffic { "-traffic" } else if no_recv { "-norecv" } else if quiet { "-quiet" } else { "" });
    writeln!(out, "{}", json!({"e":"reset","scn":name.clone(),"fl":family,"fut":fut,"cap":cap,"wait":"busy","run":1})).unwrap();
    for round in 0..2 {
        let blocks0 = rt::rt().lock().allocs.len();
        out.flush().unwrap();
        let heap0 = LIVE_BYTES.load(AO::Relaxed);
        let (tx, mut rx) = handles::create(&family, fut, cap, "busy", Some((0, 0)));
        if early_drop {
            // a non-last handle of the stream that goes away before the churn starts
            let c = rx.dup().unwrap();
            drop(c);
        }
        // "traffic": a second pair of handles that sends and receives in every cycle
        let mut traffic_pair = if traffic { Some((tx.dup().unwrap(), rx.dup().unwrap())) } else { None };
        let mut v = 1u64;
        let mut next_ck = 100usize;
        let mut dummy = None;
        if no_recv {
            // a value stays queued when the last receiver goes
            let _ = tx.try_send(P::new(v));
            v += 1;
            // (the variable keeps a receiver of an unrelated queue so that the code below stays the same)
            let (dtx, drx) = handles::create(&family, fut, cap, "busy", Some((0, 0)));
            let gone = std::mem::replace(&mut rx, drx);
            drop(gone);
            dummy = Some(dtx);
        }
        for i in 1..=cycles {
            if quiet && (i % 40) < 12 {
                let mut helper = rx.dup().unwrap();
                match &helper {
                    H::BR(_) | H::BFR(_) => {
                        let a = helper.add_stream().unwrap();
                        drop(a);
                    }
                    _ => {
                        let c = helper.dup().unwrap();
                        drop(c);
                    }
                }
                let _ = helper.try_recv();
                drop(helper);
                if i == next_ck || i == cycles {
                    let st = rt::rt().lock();
                    let blocks = st.allocs.len() as i64 - blocks0 as i64;
                    let hook_bytes: usize = st.allocs.values().map(|a| a.0).sum();
                    drop(st);
                    if round == 1 { writeln!(out, "{}", json!({"e":"ckpt","k":i,"blocks":blocks,"hook_bytes":hook_bytes,
                                               "heap":LIVE_BYTES.load(AO::Relaxed)})).unwrap(); }
                    next_ck *= 10;
                }
                continue;
            }
            if no_recv {
                let t2 = tx.dup().unwrap();
                let _ = t2.try_send(P::new(v));
                v += 1;
                let t3 = t2.dup().unwrap();
                drop(t2);
                let _ = tx.try_send(P::new(v));
                v += 1;
                drop(t3);
                if i == next_ck || i == cycles {
                    let st = rt::rt().lock();
                    let blocks = st.allocs.len() as i64 - blocks0 as i64;
                    let hook_bytes: usize = st.allocs.values().map(|a| a.0).sum();
                    drop(st);
                    if round == 1 { writeln!(out, "{}", json!({"e":"ckpt","k":i,"blocks":blocks,"hook_bytes":hook_bytes,
                                               "heap":LIVE_BYTES.load(AO::Relaxed)})).unwrap(); }
                    next_ck *= 10;
                }
                continue;
            }
            match &rx {
                H::BR(_) | H::BFR(_) => {
                    let mut a = rx.add_stream().unwrap();
                    let c = a.dup().unwrap();
                    let _ = tx.try_send(P::new(v));
                    v += 1;
                    let _ = rx.try_recv();
                    let _ = a.try_recv();
                    drop(c);
                    drop(a);
                }
                _ => {
                    let mut c = rx.dup().unwrap();
                    let _ = tx.try_send(P::new(v));
                    v += 1;
                    let _ = c.try_recv();
                    let _ = rx.try_recv();
                    drop(c);
                }
            }
            let t2 = tx.dup().unwrap();
            let _ = t2.try_send(P::new(v));
            v += 1;
            drop(t2);
            let _ = rx.try_recv();
            if let Some((ttx, trx)) = traffic_pair.as_mut() {
                let _ = ttx.try_send(P::new(v));
                v += 1;
                let _ = trx.try_recv();
                let _ = trx.try_recv();
            }
            if i % 7 == 0 && !traffic {
                // shared <-> single-consumer round trip
                rx = match rx.into_single() {
                    Ok(u) => match u.into_multi() {
                        Ok(m) => m,
                        Err(u2) => u2,
                    },
                    Err(m) => m,
                };
            }
            if i == next_ck || i == cycles {
                let st = rt::rt().lock();
                let blocks = st.allocs.len() as i64 - blocks0 as i64;
                let hook_bytes: usize = st.allocs.values().map(|a| a.0).sum();
                drop(st);
                if round == 1 { writeln!(out, "{}", json!({"e":"ckpt","k":i,"blocks":blocks,"hook_bytes":hook_bytes,
                                           "heap":LIVE_BYTES.load(AO::Relaxed)})).unwrap(); }
                next_ck *= 10;
            }
        }
        drop(traffic_pair);
        drop(tx);
        drop(rx);
        drop(dummy);
        let heap1 = LIVE_BYTES.load(AO::Relaxed);
        let live = rt::rt().lock().allocs.len() as i64 - blocks0 as i64;
        if round == 1 { writeln!(out, "{}", json!({"e":"end","left":0,"live":live,"live_bytes":0,"outcome":"Done",
                                   "heap_delta":heap1 - heap0})).unwrap(); }
    }
    out.flush().unwrap();
    println!("{}", json!({"runs":1,"distinct_traces":1,"nontrivial":0,"events":0,"outcomes":{"Done":1},
                          "exhaustive":false,"max_steps":0,"extra":{"cycles":cycles}}));
}

fn arg<'a>(args: &'a [String], k: &str) -> Option<&'a str> {
    args.iter().position(|a| a == k).and_then(|i| args.get(i + 1)).map(|s| s.as_str())
}

fn load_scenarios(path: &str) -> Vec<Scenario> {
    let txt = std::fs::read_to_string(path).expect("scenario file");
    let t = txt.trim_start();
    if t.starts_with('[') {
        let v: Value = serde_json::from_str(&txt).expect("scenario json");
        v.as_array().unwrap().iter().map(Scenario::from_json).collect()
    } else {
        txt.lines()
            .filter(|l| !l.trim().is_empty())
            .map(|l| Scenario::from_json(&serde_json::from_str(l).expect("scenario line")))
            .collect()
    }
}

/// Line-delimited scenario file, only the lines with index % of == part (streamed)
fn load_scenarios_part(path: &str, part: usize, of: usize) -> Vec<Scenario> {
    let f = std::io::BufReader::new(std::fs::File::open(path).expect("scenario file"));
    let mut out = Vec::new();
    let mut i = 0usize;
    for l in f.lines() {
        let l = l.expect("scenario line");
        if l.trim().is_empty() {
            continue;
        }
        if i % of == part {
            out.push(Scenario::from_json(&serde_json::from_str(&l).expect("scenario line")));
        }
        i += 1;
    }
    out
}

fn trace_key(api: &[Value]) -> u64 {
    let mut h = DefaultHasher::new();
    for ev in api {
        let mut e = ev.clone();
        if let Some(o) = e.as_object_mut() {
            o.remove("nops");
            o.remove("run");
        }
        e.to_string().hash(&mut h);
    }
    h.finish()
}

fn loc_name(layout: &HashMap<usize, String>, addr: usize) -> String {
    if addr == 0 {
        return "-".into();
    }
    layout.get(&addr).cloned().unwrap_or_else(|| "?".into())
}

struct Sink {
    out: Box<dyn Write>,
    sched_out: Option<Box<dyn Write>>,
    ops_out: Option<Box<dyn Write>>,
    seen: HashSet<u64>,
    runs: usize,
    distinct: usize,
    nontrivial: HashSet<u64>,
    outcomes: HashMap<String, usize>,
    events: usize,
    max_steps: usize,
    dedupe: bool,
}

impl Sink {
    fn put(&mut self, scn: &Scenario, res: &RunResult, tag: &Value) {
        self.runs += 1;
        *self.outcomes.entry(format!("{:?}", res.outcome)).or_insert(0) += 1;
        let sched: Vec<usize> = res.steps.iter().map(|s| s.chosen).collect();
        self.max_steps = self.max_steps.max(sched.len());
        let pre = explore::preemptions(&res.steps);
        if pre > 0 {
            let mut h = DefaultHasher::new();
            scn.name.hash(&mut h);
            sched.hash(&mut h);
            self.nontrivial.insert(h.finish());
        }
        let key = trace_key(&res.api);
        if self.dedupe && !self.seen.insert(key) {
            return;
        }
        self.distinct += 1;
        let run = self.runs;
        for (i, ev) in res.api.iter().enumerate() {
            let mut e = ev.clone();
            if i == 0 {
                e["run"] = json!(run);
            }
            writeln!(self.out, "{}", e).unwrap();
            self.events += 1;
        }
        if let Some(so) = self.sched_out.as_mut() {
            writeln!(so, "{}", json!({"run":run,"scn":scn.name,"sched":sched,"pre":pre,"tag":tag,
                                       "outcome":format!("{:?}",res.outcome)}))
                .unwrap();
        }
        if let Some(oo) = self.ops_out.as_mut() {
            let ops: Vec<Value> = res
                .ops
                .iter()
                .map(|o| json!([o.t, o.kind.name(), loc_name(&res.layout, o.addr), o.val, o.ok]))
                .collect();
            writeln!(oo, "{}", json!({"run":run,"scn":scn.name,"ops":ops})).unwrap();
        }
    }
}

fn open_w(path: Option<&str>) -> Option<Box<dyn Write>> {
    path.map(|p| Box::new(std::io::BufWriter::new(std::fs::File::create(p).expect("create"))) as Box<dyn Write>)
}

fn main() {
    let args: Vec<String> = std::env::args().collect();
    if args.len() < 2 {
        eprintln!("usage: mqh explore|replay ...");
        std::process::exit(2);
    }
    std::panic::set_hook(Box::new(|info| {
        if info.payload().is::<rt::AbortRun>() {
            return;
        }
        if std::env::var("MQH_PANIC_VERBOSE").is_ok() {
            eprintln!("panic: {}", info);
        }
    }));
    let cmd = args[1].as_str();
    if cmd == "churn" {
        churn(&args);
        return;
    }
    // sequential histories (mode default) are sharded by scenario: a shard only parses its own lines
    let shard_by_scn = cmd == "explore" && arg(&args, "--mode") == Some("default");
    let (part0, of0): (usize, usize) = (
        arg(&args, "--part").and_then(|s| s.parse().ok()).unwrap_or(0),
        arg(&args, "--of").and_then(|s| s.parse().ok()).unwrap_or(1),
    );
    let scns = if shard_by_scn && of0 > 1 {
        load_scenarios_part(arg(&args, "--scn").expect("--scn"), part0, of0)
    } else {
        load_scenarios(arg(&args, "--scn").expect("--scn"))
    };
    let only = arg(&args, "--only");
    let record_ops = arg(&args, "--ops-out").is_some() || cmd == "replay";
    let quarantine = !args.iter().any(|a| a == "--no-quarantine");
    let mut sink = Sink {
        out: open_w(arg(&args, "--out")).unwrap_or_else(|| Box::new(std::io::sink())),
        sched_out: open_w(arg(&args, "--sched-out")),
        ops_out: open_w(arg(&args, "--ops-out")),
        seen: HashSet::new(),
        runs: 0,
        distinct: 0,
        nontrivial: HashSet::new(),
        outcomes: HashMap::new(),
        events: 0,
        max_steps: 0,
        dedupe: !args.iter().any(|a| a == "--no-dedupe"),
    };
    let seed: u64 = arg(&args, "--seed").and_then(|s| s.parse().ok()).unwrap_or(1);
    // wall-clock budget of this process: exploration stops (and reports itself as not exhaustive) when it is used up
    let budget: f64 = arg(&args, "--time-budget").and_then(|s| s.parse().ok()).unwrap_or(1.0e9);
    let t_start = std::time::Instant::now();
    let mut out_of_time = false;
    let mut exhaustive = true;
    let mut extra = json!({});
    match cmd {
        "explore" => {
            let mode = arg(&args, "--mode").unwrap_or("dfs");
            let bound: usize = arg(&args, "--bound").and_then(|s| s.parse().ok()).unwrap_or(2);
            let max_runs: usize = arg(&args, "--runs").and_then(|s| s.parse().ok()).unwrap_or(1000);
            // shard: this process handles runs with index % of == part
            let mut part: usize = arg(&args, "--part").and_then(|s| s.parse().ok()).unwrap_or(0);
            let mut of: usize = arg(&args, "--of").and_then(|s| s.parse().ok()).unwrap_or(1);
            if shard_by_scn && of > 1 {
                // already selected while loading
                part = 0;
                of = 1;
            }
            for (si, scn) in scns.iter().enumerate() {
                if let Some(o) = only {
                    if scn.name != o {
                        continue;
                    }
                }
                match mode {
                    "default" => {
                        if si % of != part {
                            continue;
                        }
                        let src = Box::new(explore::Prefix { prefix: vec![] });
                        let (res, _) = exec::run(scn, src, record_ops, quarantine);
                        sink.put(scn, &res, &json!("default"));
                    }
                    "dfs" if arg(&args, "--prefix-file").is_some() => {
                        // drift-directed: enumerate below each given prefix of this scenario
                        let txt = std::fs::read_to_string(arg(&args, "--prefix-file").unwrap()).unwrap_or_default();
                        for (li, line) in txt.lines().enumerate() {
                            if li % of != part {
                                continue;
                            }
                            let v: Value = match serde_json::from_str(line) {
                                Ok(v) => v,
                                Err(_) => continue,
                            };
                            if v["scn"].as_str() != Some(scn.name.as_str()) {
                                continue;
                            }
                            let fixed: Vec<usize> = v["prefix"].as_array().map(|a| a.iter().map(|x| x.as_u64().unwrap_or(0) as usize).collect()).unwrap_or_default();
                            let mut dfs = explore::Dfs::with_fixed(bound, fixed);
                            let mut n = 0;
                            while let Some(p) = dfs.next_prefix() {
                                if n >= max_runs || t_start.elapsed().as_secs_f64() > budget {
                                    exhaustive = false;
                                    break;
                                }
                                let src = Box::new(explore::Prefix { prefix: p });
                                // same step structure as the lockstep replay that produced the prefix
                                let (res, _) = exec::run_opt(scn, src, record_ops, quarantine, true);
                                dfs.record(&res.steps);
                                sink.put(scn, &res, &json!("dfs-below-drift"));
                                n += 1;
                            }
                        }
                    }
                    "dfs" if arg(&args, "--order") == Some("random") => {
                        if si % of != part {
                            continue;
                        }
                        // --victim each: one enumeration per thread of the concurrent phase, in which only that thread
                        // is ever preempted (the run cap is shared between the victims)
                        let victims: Vec<Option<usize>> = if arg(&args, "--victim") == Some("each") {
                            let nt = scn.phases.iter().map(|p| p.len()).max().unwrap_or(1);
                            (0..=nt).map(Some).collect()
                        } else {
                            vec![None]
                        };
                        let per = (max_runs + victims.len() - 1) / victims.len();
                        for vic in victims {
                        let mut wl = explore::Worklist::new(bound, seed.wrapping_mul(1000003).wrapping_add(si as u64));
                        wl.victim = vic;
                        let max_runs = per;
                        let mut n = 0;
                        while let Some(p) = wl.next_prefix() {
                            if n >= max_runs || t_start.elapsed().as_secs_f64() > budget {
                                exhaustive = false;
                                out_of_time = t_start.elapsed().as_secs_f64() > budget;
                                break;
                            }
                            let src = Box::new(explore::Prefix { prefix: p });
                            let (res, _) = exec::run(scn, src, record_ops, quarantine);
                            wl.record(&res.steps);
                            sink.put(scn, &res, &json!("dfs"));
                            n += 1;
                        }
                        if wl.dropped {
                            exhaustive = false;
                        }
                        }
                    }
                    "dfs" => {
                        if si % of != part {
                            continue;
                        }
                        let mut dfs = explore::Dfs::new(bound);
                        let mut n = 0;
                        while let Some(p) = dfs.next_prefix() {
                            if n >= max_runs || t_start.elapsed().as_secs_f64() > budget {
                                exhaustive = false;
                                out_of_time = t_start.elapsed().as_secs_f64() > budget;
                                break;
                            }
                            let src = Box::new(explore::Prefix { prefix: p });
                            let (res, _) = exec::run(scn, src, record_ops, quarantine);
                            dfs.record(&res.steps);
                            sink.put(scn, &res, &json!("dfs"));
                            n += 1;
                        }
                    }
                    "freeze" => {
                        exhaustive = false;
                        let bound: usize = arg(&args, "--solo-bound").and_then(|s| s.parse().ok()).unwrap_or(64);
                        for k in 0..max_runs {
                            if k % of != part {
                                continue;
                            }
                            if t_start.elapsed().as_secs_f64() > budget {
                                out_of_time = true;
                                break;
                            }
                            let s = seed.wrapping_mul(1_000_003).wrapping_add((si * 7919 + k) as u64);
                            let src = Box::new(explore::Freeze::new(s, bound));
                            let (res, _) = exec::run(scn, src, record_ops, quarantine);
                            sink.put(scn, &res, &json!({"mode":"freeze","seed":s}));
                        }
                    }
                    "random" | "pct" => {
                        exhaustive = false;
                        // PCT places its priority change points over the whole run: measure its length once
                        let est_len = if mode == "pct" && part < max_runs {
                            let src = Box::new(explore::Prefix { prefix: vec![] });
                            let (res, _) = exec::run(scn, src, false, quarantine);
                            res.steps.len().max(20)
                        } else {
                            120
                        };
                        for k in 0..max_runs {
                            if k % of != part {
                                continue;
                            }
                            if t_start.elapsed().as_secs_f64() > budget {
                                out_of_time = true;
                                break;
                            }
                            let s = seed.wrapping_mul(1_000_003).wrapping_add((si * 7919 + k) as u64);
                            let res = if mode == "random" {
                                let p = [0.05, 0.15, 0.4, 1.0][k % 4];
                                let src = Box::new(explore::Uniform::new(s, p));
                                exec::run(scn, src, record_ops, quarantine).0
                            } else {
                                let nth = scn.phases.iter().map(|p| p.len()).max().unwrap_or(1) + 1;
                                let src = Box::new(explore::Pct::new(s, nth, 1 + k % 6, est_len));
                                exec::run(scn, src, record_ops, quarantine).0
                            };
                            sink.put(scn, &res, &json!({"mode":mode,"seed":s}));
                        }
                    }
                    _ => panic!("mode"),
                }
            }
        }
        "replay" => {
            // each line: {"scn": name, "sched": [...], optional "ops": [[t,kind,loc,val,ok],...]}
            exhaustive = false;
            let by_name: HashMap<String, &Scenario> = scns.iter().map(|s| (s.name.clone(), s)).collect();
            let f = std::fs::File::open(arg(&args, "--sched").expect("--sched")).expect("sched file");
            let mut matched = 0usize;
            let mut drift = 0usize;
            let mut first_drift: Option<Value> = None;
            let mut drifts: Vec<Value> = Vec::new();
            let mut skipped = 0usize;
            for line in std::io::BufReader::new(f).lines() {
                let line = line.unwrap();
                if line.trim().is_empty() {
                    continue;
                }
                let v: Value = serde_json::from_str(&line).expect("sched line");
                let scn = match by_name.get(v["scn"].as_str().unwrap_or("")) {
                    Some(s) => *s,
                    None => continue,
                };
                let sched: Vec<usize> =
                    v["sched"].as_array().unwrap().iter().map(|x| x.as_u64().unwrap() as usize).collect();
                let src = Box::new(explore::Replay::new(sched));
                let sk = src.skipped.clone();
                let lockstep = v["ops"].is_array();
                let (res, _) = exec::run_opt(scn, src, true, quarantine, lockstep);
                skipped += sk.load(std::sync::atomic::Ordering::Relaxed);
                if let Some(exp) = v["ops"].as_array() {
                    // lockstep comparison of the op streams
                    let skip = v["skip_phases"].as_u64().unwrap_or(0) as usize;
                    let got: Vec<Value> = res
                        .ops
                        .iter()
                        .filter(|o| o.phase >= skip)
                        .map(|o| json!([o.t, o.kind.name(), loc_name(&res.layout, o.addr), o.val, o.ok]))
                        .collect();
                    let mut ok = got.len() == exp.len();
                    let mut at = got.len().min(exp.len());
                    for i in 0..got.len().min(exp.len()) {
                        if !op_matches(&exp[i], &got[i]) {
                            ok = false;
                            at = i;
                            break;
                        }
                    }
                    if ok {
                        matched += 1;
                    } else {
                        drift += 1;
                        if drifts.len() < 12 {
                            // global step prefix that reaches the divergence: all steps up to the at-th step of the
                            // concurrent phase
                            let mut seen = 0usize;
                            let mut cut = res.steps.len();
                            for (i, st) in res.steps.iter().enumerate() {
                                if st.multi {
                                    if seen == at {
                                        cut = i;
                                        break;
                                    }
                                    seen += 1;
                                }
                            }
                            let pre: Vec<usize> = res.steps[..cut].iter().map(|s| s.chosen).collect();
                            drifts.push(json!({"scn": scn.name, "prefix": pre}));
                        }
                        if first_drift.is_none() {
                            first_drift = Some(json!({"scn":scn.name,"at":at,
                                "expected": exp.get(at), "got": got.get(at),
                                "exp_len": exp.len(), "got_len": got.len()}));
                        }
                    }
                }
                sink.put(scn, &res, &json!("replay"));
            }
            extra = json!({"lockstep_matched":matched,"lockstep_drift":drift,"first_drift":first_drift,
                           "skipped_steps":skipped,"drifts":drifts});
        }
        _ => {
            eprintln!("unknown command");
            std::process::exit(2);
        }
    }
    sink.out.flush().unwrap();
    if let Some(s) = sink.sched_out.as_mut() {
        s.flush().unwrap();
    }
    if let Some(s) = sink.ops_out.as_mut() {
        s.flush().unwrap();
    }
    let stats = json!({"runs":sink.runs,"distinct_traces":sink.distinct,"nontrivial":sink.nontrivial.len(),
        "events":sink.events,"outcomes":sink.outcomes,"exhaustive":exhaustive,"max_steps":sink.max_steps,
        "out_of_time":out_of_time,"extra":extra});
    println!("{}", stats);
    let _ = Outcome::Done;
    use std::io::Write as _;
    std::io::stdout().flush().ok();
    // parked threads of stuck runs must not keep the process alive
    std::process::exit(0);
}

/// expected op (from the specification) against the observed one; "*" matches anything
fn op_matches(exp: &Value, got: &Value) -> bool {
    let (e, g) = match (exp.as_array(), got.as_array()) {
        (Some(e), Some(g)) => (e, g),
        _ => return false,
    };
    let loc = e.get(2).and_then(|x| x.as_str()).unwrap_or("");
    for i in 0..e.len().min(g.len()) {
        if e[i] == json!("*") {
            continue;
        }
        if i == 2 && (loc == "waitlock" || loc == "waitcv") && g[i] == json!("?") {
            continue;
        }
        if i == 3 && loc == "signal" {
            // only the no-reader bit belongs to this model
            let ev = e[i].as_u64().unwrap_or(0) & 2;
            let gv = g[i].as_u64().unwrap_or(0) & 2;
            if ev != gv {
                return false;
            }
            continue;
        }
        if e[i] != g[i] {
            return false;
        }
    }
    true
}
