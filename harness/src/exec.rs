//! Scenario interpreter and the controller loop that grants the baton.

use crate::handles::{self, in_task, wait_task, Res, H, It};
use crate::payload::{self, P};
use crate::rt::{self, rt, AbortRun, OpRec, Status, K};
use serde_json::{json, Value};
use std::collections::HashMap;
use std::panic::{catch_unwind, resume_unwind, AssertUnwindSafe};
use std::sync::Mutex;

#[derive(Clone, Debug)]
pub struct Scenario {
    pub name: String,
    pub flavour: String,
    pub fut: bool,
    pub cap: u64,
    pub wait: String,
    pub spins: Option<(usize, usize)>,
    /// phases[p][thread][op]
    pub phases: Vec<Vec<Vec<Value>>>,
    pub livelock: usize,
    pub max_steps: usize,
    pub drop_yield: bool,
    /// record the memory manager's ops as "mm" events (validated against MQMemImplTrace)
    pub mm_trace: bool,
    pub raw: Value,
}

impl Scenario {
    pub fn from_json(v: &Value) -> Scenario {
        let phases = v["phases"]
            .as_array()
            .expect("phases")
            .iter()
            .map(|ph| {
                ph.as_array()
                    .expect("phase")
                    .iter()
                    .map(|th| th.as_array().expect("thread").clone())
                    .collect()
            })
            .collect();
        Scenario {
            name: v["name"].as_str().unwrap_or("scn").to_string(),
            flavour: v["flavour"].as_str().unwrap_or("bcast").to_string(),
            fut: v["fut"].as_bool().unwrap_or(false),
            cap: v["cap"].as_u64().unwrap_or(2),
            wait: v["wait"].as_str().unwrap_or("busy").to_string(),
            spins: v["spins"].as_array().map(|a| {
                (a[0].as_u64().unwrap() as usize, a[1].as_u64().unwrap() as usize)
            }),
            phases,
            livelock: v["livelock"].as_u64().unwrap_or(1500) as usize,
            max_steps: v["max_steps"].as_u64().unwrap_or(30000) as usize,
            drop_yield: v["drop_yield"].as_bool().unwrap_or(false),
            mm_trace: v["mm_trace"].as_bool().unwrap_or(false),
            raw: v.clone(),
        }
    }
}

static TBL: Mutex<Option<HashMap<String, H>>> = Mutex::new(None);
static ITERS: Mutex<Option<HashMap<String, It>>> = Mutex::new(None);

fn tbl_take(name: &str) -> Option<H> {
    TBL.lock().unwrap_or_else(|p| p.into_inner()).as_mut().and_then(|m| m.remove(name))
}
fn tbl_put(name: &str, h: H) {
    if let Some(m) = TBL.lock().unwrap_or_else(|p| p.into_inner()).as_mut() {
        m.insert(name.to_string(), h);
    }
}

fn tbl_has(name: &str) -> bool {
    TBL.lock().unwrap_or_else(|p| p.into_inner()).as_ref().map(|m| m.contains_key(name)).unwrap_or(false)
}

/// A handle created by another thread of the same phase may not exist yet: yield until it does
fn tbl_wait(name: &str) {
    if name.is_empty() {
        return;
    }
    let mut n = 0;
    while !tbl_has(name) && n < 100000 {
        {
            // nobody else is left who could create it: the op is skipped
            let st = rt().lock();
            let me = tid();
            let others = st
                .th
                .iter()
                .enumerate()
                .any(|(t, th)| t != me && th.status != crate::rt::Status::Finished);
            if !others {
                return;
            }
        }
        rt().sched(K::Shim(multiqueue2::verif_hooks::OpKind::Yield), 0, 0);
        rt().done(K::Shim(multiqueue2::verif_hooks::OpKind::Yield), 0, 0, 0, true);
        n += 1;
    }
}

fn tid() -> usize {
    rt::TID.with(|c| c.get()).unwrap_or(0)
}

fn log_call(op: &str, api: &str, h: &str, hk: &str, v: i64, newh: &str) {
    let t = tid();
    let ev = json!({"e":"call","t":t,"op":op,"api":api,"h":h,"hk":hk,"v":v,"new":newh});
    let mut st = rt().lock();
    if st.abort {
        return;
    }
    if t < st.th.len() {
        st.th[t].in_call = Some(json!({"t":t,"op":op,"api":api,"h":h}));
        st.th[t].call_ops = 0;
        st.th[t].tokenless = false;
    }
    st.api.push(ev);
}

fn log_ret(r: &str, v: i64, same: bool) {
    let t = tid();
    let mut st = rt().lock();
    if st.abort {
        return;
    }
    let n = if t < st.th.len() { st.th[t].call_ops } else { 0 };
    let mut solo = None;
    let mut api = String::new();
    if t < st.th.len() {
        api = st.th[t].in_call.as_ref().and_then(|c| c["api"].as_str()).unwrap_or("").to_string();
        st.th[t].in_call = None;
        st.th[t].hold = 0;
        st.th[t].risky = 0;
        solo = st.th[t].solo_mark.take();
        if !st.th[t].retrying {
            // a finished call of a finite program is progress
            st.since_progress = 0;
            for th in st.th.iter_mut() {
                th.since = 0;
            }
        }
    }
    st.api.push(json!({"e":"ret","t":t,"r":r,"v":v,"same":same,"nops":n}));
    if let Some(bound) = solo {
        st.api.push(json!({"e":"solo","t":t,"api":api,"nops":n,"bound":bound,"done":true}));
    }
}

fn mark_leaving(h: &H) {
    let mut st = rt().lock();
    for loc in h.layout() {
        if loc.name == "token" {
            st.leaving.insert(loc.addr);
        }
    }
}

fn set_retrying(on: bool) {
    let t = tid();
    let mut st = rt().lock();
    if t < st.th.len() {
        st.th[t].retrying = on;
    }
}

fn set_waiting(what: &str, h: &str) {
    let t = tid();
    let mut st = rt().lock();
    if t < st.th.len() {
        st.th[t].in_call = Some(json!({"t":t,"op":"taskwait","api":what,"h":h}));
    }
}

fn clear_waiting() {
    let t = tid();
    let mut st = rt().lock();
    if t < st.th.len() {
        st.th[t].in_call = None;
    }
}

fn call_point() {
    rt().sched(K::Call, 0, 0);
    rt().done(K::Call, 0, 0, 0, true);
}

/// Runs one primitive API call with call/ret logging; a panic in the crate is a result
fn prim<F: FnOnce() -> Res>(op: &str, api: &str, h: &str, hk: &str, v: i64, newh: &str, f: F) -> Res {
    log_call(op, api, h, hk, v, newh);
    let r = catch_unwind(AssertUnwindSafe(|| crate::heap::in_crate(f)));
    match r {
        Ok(res) => {
            let (s, v, same) = res.to_json();
            log_ret(&s, v, same);
            res
        }
        Err(e) => {
            if e.is::<AbortRun>() {
                resume_unwind(e);
            }
            let msg = e
                .downcast_ref::<&str>()
                .map(|s| s.to_string())
                .or_else(|| e.downcast_ref::<String>().cloned())
                .unwrap_or_default();
            rt().log_api(json!({"e":"panic","t":tid(),"msg":msg}));
            log_ret("Panic", -1, true);
            Res::Err
        }
    }
}

fn sget<'a>(op: &'a Value, k: &str) -> &'a str {
    op[k].as_str().unwrap_or("")
}

/// Executes one scenario op (possibly several primitive calls). Returns false to stop the thread.
fn exec_op(op: &Value, fut_default: bool) -> bool {
    let name = sget(op, "op");
    let hn = sget(op, "h");
    let newn = sget(op, "new");
    let task = op["task"].as_u64().map(|x| x as usize).unwrap_or_else(tid);
    let mut ok = true;
    set_retrying(false);
    match name {
        "send" | "start_send" | "fsend" => {
            let v = op["v"].as_u64().unwrap_or(0);
            let use_sink = name != "send" || (fut_default && op["sink"].as_bool().unwrap_or(false));
            loop {
                let mut h = match { call_point(); tbl_wait(hn); tbl_take(hn) } {
                    Some(h) => h,
                    None => return false,
                };
                let hk = h.kind();
                let r = if use_sink {
                    rt().clear_task(task);
                    prim("send", "start_send", hn, hk, v as i64, "", || {
                        let p = P::new(v);
                        in_task(task, || h.start_send(p))
                    })
                } else {
                    prim("send", "try_send", hn, hk, v as i64, "", || h.try_send(P::new(v)))
                };
                tbl_put(hn, h);
                match r {
                    Res::Full(_, _) if name == "fsend" => {
                        set_waiting("send", hn);
                        wait_task(task);
                        clear_waiting();
                        continue;
                    }
                    Res::Full(_, _) if op["retry"].as_bool().unwrap_or(false) => {
                        set_retrying(true);
                        continue;
                    }
                    Res::Err => ok = false,
                    _ => {}
                }
                break;
            }
        }
        "poll_complete" => {
            if let Some(mut h) = { call_point(); tbl_wait(hn); tbl_take(hn) } {
                let hk = h.kind();
                prim("pc", "poll_complete", hn, hk, -1, "", || in_task(task, || h.poll_complete()));
                tbl_put(hn, h);
            }
        }
        "wpoll" => {
            // wait for the notification of this op's task, then poll once
            set_waiting("recv", hn);
            wait_task(task);
            clear_waiting();
            if let Some(mut h) = { call_point(); tbl_wait(hn); tbl_take(hn) } {
                let hk = h.kind();
                rt().clear_task(task);
                prim("recv", "poll", hn, hk, -1, "", || in_task(task, || h.poll()));
                tbl_put(hn, h);
            }
        }
        "recv" | "brecv" | "view" | "bview" | "poll" | "frecv" => {
            loop {
                let mut h = match { call_point(); tbl_wait(hn); tbl_take(hn) } {
                    Some(h) => h,
                    None => return false,
                };
                let hk = h.kind();
                let r = match name {
                    "recv" => prim("recv", "try_recv", hn, hk, -1, "", || h.try_recv()),
                    "brecv" => prim("brecv", "recv", hn, hk, -1, "", || h.recv()),
                    "view" => prim("recv", "try_recv_view", hn, hk, -1, "", || h.try_view()),
                    "bview" => prim("brecv", "recv_view", hn, hk, -1, "", || h.view()),
                    _ => {
                        rt().clear_task(task);
                        prim("recv", "poll", hn, hk, -1, "", || in_task(task, || h.poll()))
                    }
                };
                tbl_put(hn, h);
                match r {
                    Res::Empty if name == "frecv" => {
                        set_waiting("recv", hn);
                        wait_task(task);
                        clear_waiting();
                        continue;
                    }
                    Res::Empty if op["retry"].as_bool().unwrap_or(false) => {
                        set_retrying(true);
                        continue;
                    }
                    Res::Err => ok = false,
                    _ => {}
                }
                break;
            }
        }
        "brecv_all" | "bview_all" | "frecv_all" => {
            // receive (blocking) until the end of the stream
            loop {
                let mut h = match { call_point(); tbl_wait(hn); tbl_take(hn) } {
                    Some(h) => h,
                    None => return false,
                };
                let hk = h.kind();
                let r = match name {
                    "brecv_all" => prim("brecv", "recv", hn, hk, -1, "", || h.recv()),
                    "bview_all" => prim("brecv", "recv_view", hn, hk, -1, "", || h.view()),
                    _ => {
                        rt().clear_task(task);
                        prim("recv", "poll", hn, hk, -1, "", || in_task(task, || h.poll()))
                    }
                };
                tbl_put(hn, h);
                match r {
                    Res::Val(_) => continue,
                    Res::Empty if name == "frecv_all" => {
                        set_waiting("recv", hn);
                        wait_task(task);
                        clear_waiting();
                        continue;
                    }
                    _ => break,
                }
            }
        }
        "recv_all" | "view_all" | "poll_all" => {
            // non-blocking receive, repeated until the end of the stream is reported
            loop {
                let mut h = match { call_point(); tbl_wait(hn); tbl_take(hn) } {
                    Some(h) => h,
                    None => return false,
                };
                let hk = h.kind();
                let r = match name {
                    "recv_all" => prim("recv", "try_recv", hn, hk, -1, "", || h.try_recv()),
                    "view_all" => prim("recv", "try_recv_view", hn, hk, -1, "", || h.try_view()),
                    _ => {
                        rt().clear_task(task);
                        prim("recv", "poll", hn, hk, -1, "", || in_task(task, || h.poll()))
                    }
                };
                tbl_put(hn, h);
                match r {
                    Res::Val(_) => {
                        set_retrying(false);
                        continue;
                    }
                    Res::Empty => {
                        set_retrying(true);
                        continue;
                    }
                    _ => break,
                }
            }
        }
        "drain" => {
            // receive until the first non-value result
            let api = sget(op, "api");
            loop {
                let mut h = match { call_point(); tbl_wait(hn); tbl_take(hn) } {
                    Some(h) => h,
                    None => return false,
                };
                let hk = h.kind();
                let r = match api {
                    "view" => prim("recv", "try_recv_view", hn, hk, -1, "", || h.try_view()),
                    "poll" => {
                        rt().clear_task(task);
                        prim("recv", "poll", hn, hk, -1, "", || in_task(task, || h.poll()))
                    }
                    "try_iter" => prim("recv", "try_iter", hn, hk, -1, "", || match h.try_iter_next() {
                        Some(v) => Res::Val(v),
                        None => Res::End,
                    }),
                    _ => prim("recv", "try_recv", hn, hk, -1, "", || h.try_recv()),
                };
                tbl_put(hn, h);
                if !matches!(r, Res::Val(_)) {
                    break;
                }
            }
        }
        "fill" => {
            // send until the first refusal; values base, base+1, ...
            let mut v = op["v"].as_u64().unwrap_or(1000);
            let lim = op["n"].as_u64().unwrap_or(64);
            for _ in 0..lim {
                let h = match { call_point(); tbl_wait(hn); tbl_take(hn) } {
                    Some(h) => h,
                    None => return false,
                };
                let hk = h.kind();
                let r = prim("send", "try_send", hn, hk, v as i64, "", || h.try_send(P::new(v)));
                tbl_put(hn, h);
                v += 1;
                if !matches!(r, Res::Ok) {
                    break;
                }
            }
        }
        "iter" => {
            // owning blocking iterator: consumes the handle, runs until the end of the stream
            if let Some(h) = { call_point(); tbl_wait(hn); tbl_take(hn) } {
                let hk = h.kind();
                mark_leaving(&h);
                let with_view = op["view"].as_bool().unwrap_or(false);
                match h.into_blocking_iter(with_view) {
                    Ok(It::B(mut it)) => loop {
                        let r = prim("brecv", "iter", hn, hk, -1, "", || match it.next() {
                            Some(v) => Res::Val(v),
                            None => Res::Disc,
                        });
                        if !matches!(r, Res::Val(_)) {
                            // the iterator owns the receiver: dropping it removes the handle
                            prim("drop", "drop_iter", hn, hk, -1, "", || {
                                drop(it);
                                Res::Ok
                            });
                            break;
                        }
                        if let Some(n) = op["n"].as_u64() {
                            let _ = n;
                        }
                    },
                    Err(h) => tbl_put(hn, h),
                }
            }
        }
        "add_stream" => {
            if let Some(h) = { call_point(); tbl_wait(hn); tbl_take(hn) } {
                let hk = h.kind();
                let mut newh = None;
                prim("add_stream", "add_stream", hn, hk, -1, newn, || match h.add_stream() {
                    Some(n) => {
                        newh = Some(n);
                        Res::Ok
                    }
                    None => Res::Unsupported,
                });
                tbl_put(hn, h);
                if let Some(n) = newh {
                    register_layout(newn, &n);
                    tbl_put(newn, n);
                }
            }
        }
        "clone" => {
            if let Some(h) = { call_point(); tbl_wait(hn); tbl_take(hn) } {
                let hk = h.kind();
                let mut newh = None;
                prim("clone", "clone", hn, hk, -1, newn, || match h.dup() {
                    Some(n) => {
                        newh = Some(n);
                        Res::Ok
                    }
                    None => Res::Unsupported,
                });
                tbl_put(hn, h);
                if let Some(n) = newh {
                    register_layout(newn, &n);
                    tbl_put(newn, n);
                }
            }
        }
        "drop" => {
            if let Some(h) = { call_point(); tbl_wait(hn); tbl_take(hn) } {
                let hk = h.kind();
                mark_leaving(&h);
                prim("drop", "drop", hn, hk, -1, "", || {
                    drop(h);
                    Res::Ok
                });
            }
        }
        "unsub" => {
            if let Some(h) = { call_point(); tbl_wait(hn); tbl_take(hn) } {
                let hk = h.kind();
                mark_leaving(&h);
                prim("unsub", "unsubscribe", hn, hk, -1, "", || h.unsubscribe());
            }
        }
        "into_single" | "into_multi" | "transform" => {
            if let Some(h) = { call_point(); tbl_wait(hn); tbl_take(hn) } {
                let hk = h.kind();
                // the futures conversions drop the old handle internally
                mark_leaving(&h);
                let mut back = None;
                prim(name, name, hn, hk, -1, "", || {
                    let r = match name {
                        "into_single" => h.into_single(),
                        "into_multi" => h.into_multi(),
                        _ => h.transform(),
                    };
                    match r {
                        Ok(n) => {
                            back = Some(n);
                            Res::Ok
                        }
                        Err(o) => {
                            back = Some(o);
                            Res::Err
                        }
                    }
                });
                if let Some(n) = back {
                    register_layout(hn, &n);
                    tbl_put(hn, n);
                }
            }
        }
        "nop" => {
            call_point();
        }
        _ => panic!("unknown scenario op {}", name),
    }
    ok
}

/// Address registry: (name, index, handle name) by address
static LAYOUT: Mutex<Vec<(usize, String)>> = Mutex::new(Vec::new());

fn register_layout(hname: &str, h: &H) {
    let _hg = crate::heap::harness();
    let mut l = LAYOUT.lock().unwrap_or_else(|p| p.into_inner());
    {
        let mut st = rt().lock();
        for loc in h.layout() {
            match loc.name {
                "mm_lock" | "wtf_lock" | "mm_epoch" | "token" => {
                    st.mm_addrs.insert(loc.addr);
                    if loc.name == "mm_lock" {
                        st.mm_lock_addr = loc.addr;
                    }
                    if loc.name == "wtf_lock" {
                        st.wtf_lock_addr = loc.addr;
                    }
                    if loc.name == "mm_epoch" {
                        st.mm_epoch_addr = loc.addr;
                    }
                }
                "pos" | "tag" => {
                    st.post_addrs.insert(loc.addr);
                }
                "signal" => st.signal_addr = loc.addr,
                "gptr" => st.gptr_addr = loc.addr,
                _ => {}
            }
        }
    }
    for loc in h.layout() {
        let nm = match loc.name {
            "tag" | "refcnt" => format!("{}[{}]", loc.name, loc.index),
            "pos" | "ncons" | "token" => format!("{}:{}", loc.name, hname),
            other => other.to_string(),
        };
        if !l.iter().any(|(a, _)| *a == loc.addr) {
            l.push((loc.addr, nm));
        }
    }
}

pub fn layout_snapshot() -> HashMap<usize, String> {
    LAYOUT.lock().unwrap_or_else(|p| p.into_inner()).iter().cloned().collect()
}

pub use crate::rt::{default_pick, Outcome, Source, StepInfo, View};

pub struct RunResult {
    pub api: Vec<Value>,
    pub ops: Vec<OpRec>,
    pub steps: Vec<StepInfo>,
    pub outcome: Outcome,
    pub layout: HashMap<usize, String>,
}

/// Runs the whole scenario once under `source`.
pub fn run(
    scn: &Scenario,
    source: Box<dyn Source>,
    record_ops: bool,
    quarantine: bool,
) -> (RunResult, Option<Box<dyn Source>>) {
    run_opt(scn, source, record_ops, quarantine, false)
}

pub fn run_opt(
    scn: &Scenario,
    source: Box<dyn Source>,
    record_ops: bool,
    quarantine: bool,
    transparent_mm: bool,
) -> (RunResult, Option<Box<dyn Source>>) {
    let r = rt();
    payload::DROP_YIELD.store(scn.drop_yield, std::sync::atomic::Ordering::Relaxed);
    {
        let mut st = r.lock();
        st.mm_addrs.clear();
        st.signal_addr = 0;
        st.transparent_mm = transparent_mm;
        st.mm_epoch_addr = 0;
        st.cur_epoch = 0;
        st.retired.clear();
        st.live_tokens = 0;
        st.tokens.clear();
        st.leaving.clear();
        st.gptr_addr = 0;
        st.post_addrs.clear();
        st.mm_trace = scn.mm_trace && !transparent_mm;
        st.mm_lock_addr = 0;
        st.wtf_lock_addr = 0;
        st.mm_ids.clear();
    }
    payload::reset_serials();
    *TBL.lock().unwrap_or_else(|p| p.into_inner()) = Some(HashMap::new());
    *ITERS.lock().unwrap_or_else(|p| p.into_inner()) = Some(HashMap::new());
    LAYOUT.lock().unwrap_or_else(|p| p.into_inner()).clear();
    let mut api_all: Vec<Value> = Vec::new();
    let mut ops_all: Vec<OpRec> = Vec::new();
    let mut steps: Vec<StepInfo> = Vec::new();
    let mut outcome = Outcome::Done;
    let mut source = Some(source);
    rt::enter(None);
    crate::heap::reset();
    let allocs_before = r.lock().allocs.len();
    api_all.push(json!({"e":"reset","scn":scn.name,"fl":scn.flavour,"fut":scn.fut,"cap":scn.cap,"wait":scn.wait}));
    {
        let (tx, rx) = crate::heap::in_crate(|| handles::create(&scn.flavour, scn.fut, scn.cap, &scn.wait, scn.spins));
        register_layout("tx", &tx);
        register_layout("rx", &rx);
        tbl_put("tx", tx);
        tbl_put("rx", rx);
    }
    if let Some(ev) = r.lock().mm_init_event() {
        api_all.push(ev);
    }
    for (pi, phase) in scn.phases.iter().enumerate() {
        let n = phase.len();
        let src = source.take().unwrap_or_else(|| Box::new(crate::explore::Prefix { prefix: vec![] }));
        r.begin_run(n + 1, record_ops, quarantine, src, steps.len(), scn.livelock, scn.max_steps);
        {
            // thread 0 does not exist in phases
            let mut st = r.lock();
            st.th[0].status = Status::Finished;
            st.phase = pi;
        }
        let mut joins = Vec::new();
        for (ti, prog) in phase.iter().enumerate() {
            let prog = prog.clone();
            let fut = scn.fut;
            let t = ti + 1;
            joins.push(std::thread::spawn(move || {
                rt::enter(Some(t));
                let res = catch_unwind(AssertUnwindSafe(|| {
                    for op in prog.iter() {
                        if !exec_op(op, fut) {
                            break;
                        }
                    }
                }));
                if let Err(e) = res {
                    if !e.is::<AbortRun>() {
                        rt().log_api(json!({"e":"panic","t":t,"msg":"harness thread panicked"}));
                    }
                }
                rt().thread_finished();
                rt::leave();
            }));
        }
        let phase_outcome = r.drive();
        if phase_outcome != Outcome::Done {
            r.abort_run();
        }
        let fin = r.finished_threads();
        for (i, j) in joins.into_iter().enumerate() {
            if phase_outcome == Outcome::Done || fin.get(i + 1).copied().unwrap_or(false) {
                let _ = j.join();
            }
            // the threads of a stuck run stay parked; their handles are leaked with them
        }
        let (src, mut st_steps) = r.take_source();
        source = src;
        steps.append(&mut st_steps);
        let (mut api, mut ops) = r.end_run();
        api_all.append(&mut api);
        ops_all.append(&mut ops);
        if phase_outcome != Outcome::Done {
            outcome = phase_outcome;
            break;
        }
        api_all.push(json!({"e":"quiesce","phase":pi}));
    }
    // whatever is left is dropped by the main thread, unscheduled, with the ledger still recording
    let layout = layout_snapshot();
    {
        let mut st = r.lock();
        st.active = true;
        st.abort = outcome != Outcome::Done;
        st.api.clear();
    }
    let leftovers = TBL.lock().unwrap_or_else(|p| p.into_inner()).take();
    *ITERS.lock().unwrap_or_else(|p| p.into_inner()) = None;
    let nleft = leftovers.as_ref().map(|m| m.len()).unwrap_or(0);
    if outcome == Outcome::Done {
        drop(leftovers);
    } else {
        // after a stuck run the queue may be in any state: leak it rather than risk a hang
        std::mem::forget(leftovers);
    }
    {
        let mut st = r.lock();
        st.active = false;
        st.abort = false;
        let mut tail = std::mem::take(&mut st.api);
        api_all.append(&mut tail);
        let live = st.allocs.len() as i64 - allocs_before as i64;
        let live_bytes: usize = st.allocs.values().map(|a| a.0).sum();
        let (crate_heap, crate_blocks) = crate::heap::crate_live();
        if outcome != Outcome::Done {
            // forget what the leaked queue still holds
            st.allocs.clear();
        }
        api_all.push(json!({"e":"end","left":nleft,"live":live,"live_bytes":live_bytes,
                            "crate_heap":crate_heap,"crate_blocks":crate_blocks,
                            "outcome":format!("{:?}", outcome)}));
    }
    rt::leave();
    (RunResult { api: api_all, ops: ops_all, steps, outcome, layout }, source)
}
