----------------------------- MODULE MQMemImpl -----------------------------
(***************************************************************************)
(* src/memory.rs at the granularity of single memory operations: one       *)
(* action per atomic load/store/RMW, per lock/try_lock/unlock and per      *)
(* allocator call of MemoryManager::{get_token, remove_token, update_token,*)
(* free, start_free} and MemoryManagerInner::try_freeing, plus the three   *)
(* operations of the rest of the crate that the protocol protects: the     *)
(* load and the compare-exchange of the published stream list (ReadCursor::*)
(* readers, "gptr") and the load of the signal word.                       *)
(*                                                                         *)
(* MQMem.tla is the section-level design (free = one step); this module is *)
(* what the code does, and it is the module the recorded "mm" traces of    *)
(* the real crate are validated against (MQMemImplTrace.tla reuses these   *)
(* actions).  The standalone next-state relation at the end composes the   *)
(* actions the way the handles of the crate do (operation, list swap,      *)
(* join, leave) so that TLC can check property C16 at this granularity.    *)
(*                                                                         *)
(* Every action takes the thread and the values the implementation logs    *)
(* (object ids, lock results); the values the model can compute itself     *)
(* (epochs, token values, which token try_freeing looks at) are exported   *)
(* as operators so that the trace specification can compare them.          *)
(***************************************************************************)
EXTENDS Naturals, Sequences, FiniteSets, TLC

CONSTANTS Threads,      \* thread ids
          TH,           \* hand-over threshold (20 in the code)
          FirstTok,     \* index of the first token try_freeing examines (1; 2 = seeded specification mutant)
          CheckInner    \* start_free compares the manager's two epochs (TRUE; FALSE = seeded specification mutant)

VARIABLES epoch,        \* MemoryManager::epoch (atomic)
          sigE,         \* UPDATE_EPOCH bit of the signal word
          mmLock,       \* holder of MemoryManager::mem_manager (0 = free)
          wtfLock,      \* holder of MemoryManager::wait_to_free (0 = free)
          tokens,       \* MemoryManagerInner::tokens (sequence of token ids, in push order)
          tokv,         \* [token id -> value of its epoch cell], every token ever allocated
          tofree,       \* MemoryManagerInner::tofree (the handed-over batch)
          innerEpoch,   \* MemoryManagerInner::epoch
          wtf,          \* the wait_to_free backlog
          freed,        \* objects released so far
          gptr,         \* the published stream list
          pc,           \* [thread -> label inside the memory manager, "idle" outside]
          lv,           \* [thread -> locals: e (epoch read), k (token), o (object), i (index), rem (left to release)]
          holds,        \* ghost: [thread -> stream lists it may still dereference]
          lost          \* ghost: batches overwritten before they were released (leak)

mmvars == <<epoch, sigE, mmLock, wtfLock, tokens, tokv, tofree, innerEpoch, wtf, freed, gptr, pc, lv, holds, lost>>

NoLocals == [e |-> 0, k |-> 0, o |-> 0, i |-> 0, rem |-> {}]
Range(s) == {s[i] : i \in DOMAIN s}
Remove(s, x) == SelectSeq(s, LAMBDA y : y # x)

MMInit(e0, g0, toks0, tokv0, wtf0, sig0) ==
  /\ epoch = e0 /\ sigE = sig0 /\ mmLock = 0 /\ wtfLock = 0
  /\ tokens = toks0 /\ tokv = tokv0 /\ tofree = {} /\ innerEpoch = e0 /\ wtf = wtf0 /\ freed = {}
  /\ gptr = g0
  /\ pc = [t \in Threads |-> "idle"] /\ lv = [t \in Threads |-> NoLocals]
  /\ holds = [t \in Threads |-> {}] /\ lost = {}

Go(t, l) == pc' = [pc EXCEPT ![t] = l]
Lv(t, f, x) == lv' = [lv EXCEPT ![t][f] = x]

(* ---------------------------------------------------------------- outside the manager *)
\* handle operation start: the signal word is loaded (try_send, examine_signals)
SigLoad(t) == /\ pc[t] = "idle"
              /\ UNCHANGED mmvars
SigValue == IF sigE THEN 1 ELSE 0

\* load of the published stream list (get_max_diff, add_stream, remove_reader, has_readers)
GLoad(t) == /\ pc[t] = "idle"
            /\ holds' = [holds EXCEPT ![t] = {gptr}]
            /\ UNCHANGED <<epoch, sigE, mmLock, wtfLock, tokens, tokv, tofree, innerEpoch, wtf, freed, gptr, pc, lv, lost>>

\* compare-exchange of the stream list, expecting `exp`, installing `new`
GCas(t, exp, new) ==
  /\ pc[t] = "idle"
  /\ IF gptr = exp
     THEN gptr' = new /\ UNCHANGED holds          \* the old list is held until it is handed to free()
     ELSE UNCHANGED gptr /\ holds' = [holds EXCEPT ![t] = {gptr}]
  /\ UNCHANGED <<epoch, sigE, mmLock, wtfLock, tokens, tokv, tofree, innerEpoch, wtf, freed, pc, lv, lost>>
GCasOk(exp) == gptr = exp

\* the public call of the handle returns: nothing is dereferenced any more
CallEnd(t) == /\ pc[t] = "idle"
              /\ holds' = [holds EXCEPT ![t] = {}]
              /\ UNCHANGED <<epoch, sigE, mmLock, wtfLock, tokens, tokv, tofree, innerEpoch, wtf, freed, gptr, pc, lv, lost>>

(* ---------------------------------------------------------------- update_token *)
UpdLoadEpoch(t) == /\ pc[t] = "idle"
                   /\ Lv(t, "e", epoch) /\ Go(t, "u2")
                   /\ UNCHANGED <<epoch, sigE, mmLock, wtfLock, tokens, tokv, tofree, innerEpoch, wtf, freed, gptr, holds, lost>>
UpdLoadTok(t, k) == /\ pc[t] = "u2" /\ k \in DOMAIN tokv /\ k \notin freed
                    /\ IF tokv[k] = lv[t].e THEN Go(t, "idle") /\ UNCHANGED lv
                                            ELSE Go(t, "u3") /\ Lv(t, "k", k)
                    /\ UNCHANGED <<epoch, sigE, mmLock, wtfLock, tokens, tokv, tofree, innerEpoch, wtf, freed, gptr, holds, lost>>
UpdStore(t) == /\ pc[t] = "u3"
               /\ tokv' = [tokv EXCEPT ![lv[t].k] = lv[t].e]
               /\ Go(t, "idle")
               /\ UNCHANGED <<epoch, sigE, mmLock, wtfLock, tokens, tofree, innerEpoch, wtf, freed, gptr, lv, holds, lost>>

(* ---------------------------------------------------------------- get_token / the locked part of remove_token *)
MmLock(t) == /\ pc[t] = "idle" /\ mmLock = 0
             /\ mmLock' = t /\ Go(t, "m2")
             /\ UNCHANGED <<epoch, sigE, wtfLock, tokens, tokv, tofree, innerEpoch, wtf, freed, gptr, lv, holds, lost>>
GetLoadEpoch(t) == /\ pc[t] = "m2"
                   /\ Lv(t, "e", epoch) /\ Go(t, "m3")
                   /\ UNCHANGED <<epoch, sigE, mmLock, wtfLock, tokens, tokv, tofree, innerEpoch, wtf, freed, gptr, holds, lost>>
GetAlloc(t, k) == /\ pc[t] = "m3" /\ k \notin DOMAIN tokv
                  /\ tokens' = Append(tokens, k) /\ tokv' = (k :> lv[t].e) @@ tokv
                  /\ Go(t, "m4")
                  /\ UNCHANGED <<epoch, sigE, mmLock, wtfLock, tofree, innerEpoch, wtf, freed, gptr, lv, holds, lost>>
MmUnlockGet(t) == /\ pc[t] = "m4"
                  /\ mmLock' = 0 /\ Go(t, "idle")
                  /\ UNCHANGED <<epoch, sigE, wtfLock, tokens, tokv, tofree, innerEpoch, wtf, freed, gptr, lv, holds, lost>>
\* remove_token: the token leaves the list; from here on the handle is outside the protocol
MmUnlockRemove(t, k) == /\ pc[t] = "m2" /\ k \in Range(tokens)
                        /\ tokens' = Remove(tokens, k)
                        /\ mmLock' = 0 /\ Go(t, "idle") /\ Lv(t, "k", k)
                        /\ holds' = [holds EXCEPT ![t] = {}]
                        /\ UNCHANGED <<epoch, sigE, wtfLock, tokv, tofree, innerEpoch, wtf, freed, gptr, lost>>

(* ---------------------------------------------------------------- free, try_freeing, start_free *)
Retire(t, o) == /\ pc[t] = "idle"
                /\ o \notin wtf /\ o \notin tofree /\ o \notin freed    \* handed over once
                /\ o \notin Range(tokens)                                \* a token is retired after it left the list
                /\ o # gptr                                              \* the published list is never retired
                /\ Lv(t, "o", o) /\ Go(t, "f1")
                /\ holds' = [holds EXCEPT ![t] = @ \ {o}]
                /\ UNCHANGED <<epoch, sigE, mmLock, wtfLock, tokens, tokv, tofree, innerEpoch, wtf, freed, gptr, lost>>
FLockWtf(t) == /\ pc[t] = "f1" /\ wtfLock = 0
               /\ wtfLock' = t /\ wtf' = wtf \cup {lv[t].o} /\ Go(t, "f2")
               /\ UNCHANGED <<epoch, sigE, mmLock, tokens, tokv, tofree, innerEpoch, freed, gptr, lv, holds, lost>>
FTryLock(t) == /\ pc[t] = "f2"
               /\ IF mmLock = 0 THEN mmLock' = t /\ Go(t, "f3") ELSE UNCHANGED mmLock /\ Go(t, "f8")
               /\ UNCHANGED <<epoch, sigE, wtfLock, tokens, tokv, tofree, innerEpoch, wtf, freed, gptr, lv, holds, lost>>
TryLockOk == mmLock = 0
FLoadEpoch(t) == /\ pc[t] = "f3"
                 /\ lv' = [lv EXCEPT ![t].e = epoch, ![t].i = IF Len(tokens) >= FirstTok THEN FirstTok ELSE 1]
                 /\ Go(t, IF tokens = <<>> THEN "f7" ELSE "f4")
                 /\ UNCHANGED <<epoch, sigE, mmLock, wtfLock, tokens, tokv, tofree, innerEpoch, wtf, freed, gptr, holds, lost>>
\* try_freeing looks at the next token of the list
FTokAt(t) == tokens[lv[t].i]
FLoadTok(t) == /\ pc[t] = "f4"
               /\ LET k == FTokAt(t) IN
                  IF tokv[k] # lv[t].e THEN Go(t, "f7") /\ UNCHANGED <<lv, innerEpoch>>
                  ELSE IF lv[t].i < Len(tokens) THEN Lv(t, "i", lv[t].i + 1) /\ UNCHANGED <<pc, innerEpoch>>
                  ELSE IF tofree = {} THEN Go(t, "f6") /\ innerEpoch' = lv[t].e /\ UNCHANGED lv
                  ELSE Go(t, "f5") /\ Lv(t, "rem", tofree) /\ UNCHANGED innerEpoch
               /\ UNCHANGED <<epoch, sigE, mmLock, wtfLock, tokens, tokv, tofree, wtf, freed, gptr, holds, lost>>
FRelease(t, o) == /\ pc[t] = "f5" /\ o \in lv[t].rem
                  /\ freed' = freed \cup {o} /\ tofree' = tofree \ {o}
                  /\ Lv(t, "rem", lv[t].rem \ {o})
                  /\ IF lv[t].rem = {o} THEN Go(t, "f6") /\ innerEpoch' = lv[t].e ELSE UNCHANGED <<pc, innerEpoch>>
                  /\ UNCHANGED <<epoch, sigE, mmLock, wtfLock, tokens, tokv, wtf, gptr, holds, lost>>
FClear(t) == /\ pc[t] = "f6"
             /\ sigE' = FALSE /\ Go(t, "f7")
             /\ UNCHANGED <<epoch, mmLock, wtfLock, tokens, tokv, tofree, innerEpoch, wtf, freed, gptr, lv, holds, lost>>
FUnlockMm(t) == /\ pc[t] = "f7"
                /\ mmLock' = 0 /\ Go(t, "f8")
                /\ UNCHANGED <<epoch, sigE, wtfLock, tokens, tokv, tofree, innerEpoch, wtf, freed, gptr, lv, holds, lost>>
OverThreshold == Cardinality(wtf) > TH
STryLock(t) == /\ pc[t] = "f8" /\ OverThreshold
               /\ IF mmLock = 0 THEN mmLock' = t /\ Go(t, "s1") ELSE UNCHANGED mmLock /\ Go(t, "f9")
               /\ UNCHANGED <<epoch, sigE, wtfLock, tokens, tokv, tofree, innerEpoch, wtf, freed, gptr, lv, holds, lost>>
SLoadEpoch(t) == /\ pc[t] = "s1"
                 /\ Lv(t, "e", epoch)
                 /\ Go(t, IF innerEpoch = epoch \/ ~CheckInner THEN "s2" ELSE "s4")
                 /\ UNCHANGED <<epoch, sigE, mmLock, wtfLock, tokens, tokv, tofree, innerEpoch, wtf, freed, gptr, holds, lost>>
SStore(t) == /\ pc[t] = "s2"
             /\ epoch' = lv[t].e + 1
             /\ lost' = lost \cup tofree      \* add_freeable overwrites the batch
             /\ tofree' = wtf /\ wtf' = {}
             /\ Go(t, "s3")
             /\ UNCHANGED <<sigE, mmLock, wtfLock, tokens, tokv, innerEpoch, freed, gptr, lv, holds>>
SSet(t) == /\ pc[t] = "s3"
           /\ sigE' = TRUE /\ Go(t, "s4")
           /\ UNCHANGED <<epoch, mmLock, wtfLock, tokens, tokv, tofree, innerEpoch, wtf, freed, gptr, lv, holds, lost>>
SUnlock(t) == /\ pc[t] = "s4"
              /\ mmLock' = 0 /\ Go(t, "f9")
              /\ UNCHANGED <<epoch, sigE, wtfLock, tokens, tokv, tofree, innerEpoch, wtf, freed, gptr, lv, holds, lost>>
FUnlockWtf(t) == /\ \/ pc[t] = "f9"
                    \/ pc[t] = "f8" /\ ~OverThreshold
                 /\ wtfLock' = 0 /\ Go(t, "idle")
                 /\ UNCHANGED <<epoch, sigE, mmLock, tokens, tokv, tofree, innerEpoch, wtf, freed, gptr, lv, holds, lost>>

(* ---------------------------------------------------------------- Drop for MemoryManager (the last handle is gone) *)
TdLock(t) == /\ pc[t] = "idle" /\ wtfLock = 0 /\ tokens = <<>>
             /\ wtfLock' = t /\ Go(t, "t2")
             /\ UNCHANGED <<epoch, sigE, mmLock, tokens, tokv, tofree, innerEpoch, wtf, freed, gptr, lv, holds, lost>>
TdRelease(t, o) == /\ \/ pc[t] = "t2" /\ o \in wtf /\ wtf' = wtf \ {o} /\ UNCHANGED tofree
                      \/ pc[t] = "t3" /\ o \in tofree /\ tofree' = tofree \ {o} /\ UNCHANGED wtf
                   /\ freed' = freed \cup {o}
                   /\ UNCHANGED <<epoch, sigE, mmLock, wtfLock, tokens, tokv, innerEpoch, gptr, pc, lv, holds, lost>>
TdUnlock(t) == /\ pc[t] = "t2" /\ wtf = {}
               /\ wtfLock' = 0 /\ Go(t, "t3")
               /\ UNCHANGED <<epoch, sigE, mmLock, tokens, tokv, tofree, innerEpoch, wtf, freed, gptr, lv, holds, lost>>
TdDone(t) == /\ pc[t] = "t3"
             /\ Go(t, "idle") /\ holds' = [holds EXCEPT ![t] = {}]
             /\ UNCHANGED <<epoch, sigE, mmLock, wtfLock, tokens, tokv, tofree, innerEpoch, wtf, freed, gptr, lv, lost>>

(* ---------------------------------------------------------------- property C16 at this granularity *)
NoUseAfterFree == \A t \in Threads : holds[t] \cap freed = {}
PublishedAlive == gptr \notin freed
NoDoubleRetire == wtf \cap tofree = {} /\ (wtf \cup tofree) \cap freed = {}
NoLostBatch == lost = {}
\* the manager's own bookkeeping: a batch is pending exactly while the two epochs differ
BatchPending == (innerEpoch = epoch) => tofree = {}
LocksSound == /\ mmLock # 0 => pc[mmLock] \in {"m2", "m3", "m4", "f3", "f4", "f5", "f6", "f7", "s1", "s2", "s3", "s4"}
              /\ wtfLock # 0 => pc[wtfLock] \in {"f2", "f3", "f4", "f5", "f6", "f7", "f8", "f9", "s1", "s2", "s3", "s4", "t2"}
=============================================================================
