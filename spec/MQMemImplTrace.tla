--------------------------- MODULE MQMemImplTrace ---------------------------
(***************************************************************************)
(* Trace specification binding MQMemImpl to the real crate: the harness    *)
(* records every op the code performs on the memory manager's locks, its   *)
(* epoch, the tokens, the signal word and the published stream list, plus  *)
(* the allocator events retire / release / token allocation ("mm" lines),  *)
(* in the global order in which the scheduler let them happen.  Every line *)
(* must be the next op of its thread in MQMemImpl with the value the model *)
(* computes (epoch and token values read, try_lock results, which token    *)
(* try_freeing examines, which objects a release drains, the value written *)
(* to a token or to the epoch).  On top of op-by-op conformance:           *)
(*   - announce rule: a handle that loads the signal word with the epoch   *)
(*     bit set refreshes a token before it does anything else;             *)
(*   - NoUseAfterFree on the ghost `holds` (stream lists loaded during the *)
(*     current public call) at every release;                              *)
(*   - a token is retired only by the thread that took it off the list.    *)
(* The only thing the log does not say is which token remove_token took    *)
(* off the list; TLC infers it (it must be the one retired next).          *)
(* One file holds many runs ("reset" lines); acceptance as in MQAbsTrace.  *)
(***************************************************************************)
EXTENDS MQMemImpl, Json, IOUtils

TraceThreads == 0..8
Rec == ndJsonDeserialize(IOEnv.TRACE)
NRec == Len(Rec)

VARIABLES l,      \* next line to consume
          on,     \* the run carries a memory-manager trace
          must,   \* [thread -> it saw the epoch bit and has not refreshed a token yet]
          prem    \* [thread -> token it took off the list (0 = none)]

vars == <<mmvars, l, on, must, prem>>

E == Rec[l]
Is(e) == l <= NRec /\ E.e = e
Handled == {"reset", "mminit", "mm", "ret", "stuck"}

Blank == /\ epoch' = 0 /\ sigE' = FALSE /\ mmLock' = 0 /\ wtfLock' = 0 /\ tokens' = <<>> /\ tokv' = <<>>
         /\ tofree' = {} /\ innerEpoch' = 0 /\ wtf' = {} /\ freed' = {} /\ gptr' = 0
         /\ pc' = [t \in Threads |-> "idle"] /\ lv' = [t \in Threads |-> NoLocals]
         /\ holds' = [t \in Threads |-> {}] /\ lost' = {}
         /\ must' = [t \in Threads |-> FALSE] /\ prem' = [t \in Threads |-> 0]

Init == /\ l = 1 /\ on = FALSE
        /\ MMInit(0, 0, <<>>, <<>>, {}, FALSE)
        /\ must = [t \in Threads |-> FALSE] /\ prem = [t \in Threads |-> 0]
        /\ TLCSet(1, 1)

Reset == /\ Is("reset") /\ Blank /\ on' = FALSE /\ l' = l + 1

MmInitEv ==
  /\ Is("mminit")
  /\ epoch' = E.epoch /\ innerEpoch' = E.epoch /\ sigE' = (E.sig % 2 = 1)
  /\ mmLock' = 0 /\ wtfLock' = 0
  /\ tokens' = E.toks
  /\ tokv' = [k \in {E.toks[i] : i \in DOMAIN E.toks} |-> E.tokv[CHOOSE i \in DOMAIN E.toks : E.toks[i] = k]]
  /\ tofree' = {} /\ wtf' = {E.wtf[i] : i \in DOMAIN E.wtf} /\ freed' = {} /\ gptr' = E.gptr
  /\ pc' = [t \in Threads |-> "idle"] /\ lv' = [t \in Threads |-> NoLocals]
  /\ holds' = [t \in Threads |-> {}] /\ lost' = {}
  /\ must' = [t \in Threads |-> FALSE] /\ prem' = [t \in Threads |-> 0]
  /\ on' = TRUE /\ l' = l + 1

Keep == UNCHANGED <<on>> /\ l' = l + 1
KeepAux == UNCHANGED <<must, prem>>

(* one "mm" line *)
MmEv ==
  /\ Is("mm") /\ on
  /\ Keep
  /\ LET t == E.t  k == E.k  loc == E.loc  id == E.id  v == E.v  ok == E.ok IN
     \* announce rule: with the obligation pending the only thing the thread may do is start update_token
     /\ must[t] => (loc = "mm_epoch" /\ k = "load" /\ pc[t] = "idle")
     /\ \/ /\ loc = "signal" /\ k = "load" /\ v % 2 = SigValue
           /\ SigLoad(t)
           /\ must' = [must EXCEPT ![t] = (v % 2 = 1)] /\ UNCHANGED prem
        \/ /\ loc = "gptr" /\ k = "load" /\ id = gptr
           /\ GLoad(t) /\ KeepAux
        \* the log carries the value found (on success that is the expected one) and the new list; what the
        \* thread expected is the list it loaded last, so a strong CAS fails exactly when that is not the current one
        \/ /\ loc = "gptr" /\ k = "cas" /\ id = gptr
           /\ ok = (holds[t] = {gptr})
           /\ (IF ok THEN GCas(t, id, v) ELSE GCas(t, 0, v))
           /\ KeepAux
        \/ /\ loc = "mm_epoch" /\ k = "load" /\ v = epoch
           /\ \/ UpdLoadEpoch(t) \/ GetLoadEpoch(t) \/ FLoadEpoch(t) \/ SLoadEpoch(t)
           /\ must' = [must EXCEPT ![t] = FALSE] /\ UNCHANGED prem
        \/ /\ loc = "mm_epoch" /\ k = "store" /\ pc[t] = "s2" /\ v = lv[t].e + 1
           /\ SStore(t) /\ KeepAux
        \/ /\ loc = "tok" /\ k = "load"
           /\ \/ pc[t] = "u2" /\ id \in DOMAIN tokv /\ v = tokv[id] /\ UpdLoadTok(t, id)
              \/ pc[t] = "f4" /\ id = FTokAt(t) /\ v = tokv[id] /\ FLoadTok(t)
           /\ KeepAux
        \/ /\ loc = "tok" /\ k = "store" /\ pc[t] = "u3" /\ id = lv[t].k /\ v = lv[t].e
           /\ UpdStore(t) /\ KeepAux
        \/ /\ loc = "mm_lock" /\ k = "lock"
           /\ MmLock(t) /\ KeepAux
        \/ /\ loc = "mm_lock" /\ k = "trylock" /\ ok = TryLockOk
           /\ \/ FTryLock(t) \/ STryLock(t)
           /\ KeepAux
        \/ /\ loc = "mm_lock" /\ k = "unlock"
           /\ \/ MmUnlockGet(t) /\ KeepAux
              \/ FUnlockMm(t) /\ KeepAux
              \/ SUnlock(t) /\ KeepAux
              \/ \E tk \in Range(tokens) : MmUnlockRemove(t, tk) /\ prem' = [prem EXCEPT ![t] = tk] /\ UNCHANGED must
        \/ /\ loc = "wtf_lock" /\ k = "lock"
           /\ \/ FLockWtf(t) \/ TdLock(t)
           /\ KeepAux
        \/ /\ loc = "wtf_lock" /\ k = "unlock"
           /\ \/ FUnlockWtf(t) \/ TdUnlock(t)
           /\ KeepAux
        \/ /\ loc = "obj" /\ k = "tokalloc"
           /\ GetAlloc(t, id) /\ KeepAux
        \/ /\ loc = "obj" /\ k = "retire"
           /\ (id \in DOMAIN tokv => prem[t] = id)
           /\ Retire(t, id)
           /\ prem' = [prem EXCEPT ![t] = 0] /\ UNCHANGED must
        \/ /\ loc = "obj" /\ k = "release"
           /\ \A u \in Threads : id \notin holds[u]       \* C16: nobody may still dereference it
           /\ \/ FRelease(t, id) \/ TdRelease(t, id)
           /\ KeepAux
        \/ /\ loc = "signal" /\ k = "fand"
           /\ FClear(t) /\ KeepAux
        \/ /\ loc = "signal" /\ k = "for"
           /\ SSet(t) /\ KeepAux

(* the public call returns: the thread is outside the manager and owes no announcement *)
RetEv == /\ Is("ret") /\ on
         /\ LET t == E.t IN
            /\ ~must[t]
            /\ \/ pc[t] = "idle" /\ CallEnd(t)
               \/ pc[t] = "t3" /\ tofree = {} /\ TdDone(t)
         /\ KeepAux /\ Keep

(* a stuck run was cut off in the middle of whatever the threads were doing *)
StuckEv == /\ Is("stuck") /\ Blank /\ on' = FALSE /\ l' = l + 1

Skip == /\ l <= NRec
        /\ \/ E.e \notin Handled
           \/ ~on /\ E.e \in {"mm", "ret"}
        /\ UNCHANGED <<mmvars, on, must, prem>> /\ l' = l + 1

Next == Reset \/ MmInitEv \/ MmEv \/ RetEv \/ StuckEv \/ Skip
Spec == Init /\ [][Next]_vars

\* the model's own invariants are evaluated on every state of the recorded behaviour as well; a state that
\* breaks one does not count as reached
TraceInv == on => NoUseAfterFree /\ PublishedAlive /\ NoDoubleRetire /\ NoLostBatch /\ LocksSound /\ BatchPending
Reg == TraceInv /\ (IF l > TLCGet(1) THEN TLCSet(1, l) ELSE TRUE)

Accepted ==
  LET far == TLCGet(1) IN
  /\ PrintT(<<"RESULT", far - 1, NRec, {}>>)
  /\ (far <= NRec => PrintT(<<"UNMATCHED", far, Rec[far]>>))
  /\ far = NRec + 1
=============================================================================
