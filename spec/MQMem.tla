------------------------------- MODULE MQMem -------------------------------
(***************************************************************************)
(* Epoch-based reclamation of the queue's bookkeeping (src/memory.rs and   *)
(* the retire calls of src/read_cursor.rs).  Objects are stream lists      *)
(* (ReaderGroup): a handle loads the published pointer inside an operation *)
(* and dereferences it for a while; add_stream / remove_reader publish a   *)
(* new list by CAS and retire the old one.                                 *)
(*                                                                         *)
(*   free(o):    wait_to_free += o; if every live token carries the current*)
(*               epoch: release the handed-over batch; if more than TH wait*)
(*               and no batch is pending: hand the waiting ones over, bump *)
(*               the epoch, raise the signal.                              *)
(*   operation:  a handle that sees the signal first copies the epoch into *)
(*               its token (announce), then works.                         *)
(*                                                                         *)
(* Each lock-protected section of memory.rs is one action.  Property C16:  *)
(* no handle ever holds (may dereference) a released object; nothing is    *)
(* released twice.  The switches are seeded specification mutants: with    *)
(* any of them on, TLC must find a counterexample.                         *)
(***************************************************************************)
EXTENDS Naturals, FiniteSets, TLC

CONSTANTS Handles,       \* handle ids (each owns a token while alive)
          Churners,      \* handles that publish new stream lists (add_stream / remove_reader)
          TH,            \* hand-over threshold (20 in the code)
          MaxObj,        \* bound on the number of stream lists ever published
          MaxOps,        \* bound on operations per handle
          AnnounceLate,  \* mutant: announce at the end of the operation instead of the start
          SkipOneToken,  \* mutant: the release test ignores one token
          FreeAtOnce,    \* mutant: the retired list is released immediately
          AppendPending, \* mutant: while an epoch change is pending, the waiting backlog is added to its batch
          TokenlessSwap  \* mutant: a leaving handle gives its token back before it edits the stream list

VARIABLES gptr, nextObj, freed, waitToFree, toFree, mmEpoch, innerEpoch, sig,
          tok,       \* [handle -> epoch in its token]; handles not in DOMAIN have no token
          pc, holds, cur, nops,
          retAt      \* ghost: [object -> epoch at which it was handed to the manager]

vars == <<gptr, nextObj, freed, waitToFree, toFree, mmEpoch, innerEpoch, sig, tok, pc, holds, cur, nops, retAt>>

Init == /\ gptr = 0 /\ nextObj = 1 /\ freed = {} /\ waitToFree = {} /\ toFree = {}
        /\ mmEpoch = 0 /\ innerEpoch = 0 /\ sig = FALSE
        /\ tok = [h \in Handles |-> 0]
        /\ pc = [h \in Handles |-> "idle"]
        /\ holds = [h \in Handles |-> {}]
        /\ cur = [h \in Handles |-> 0]
        /\ nops = [h \in Handles |-> 0]
        /\ retAt = <<>>

Live == DOMAIN tok
Go(h, l) == pc' = [pc EXCEPT ![h] = l]

(* the whole of MemoryManager::free as one section *)
TokensCurrent == LET T == IF SkipOneToken /\ Cardinality(Live) > 1
                          THEN Live \ {CHOOSE h \in Live : TRUE} ELSE Live
                 IN T # {} /\ \A h \in T : tok[h] = mmEpoch
FreeSection(o) ==
  LET w1 == waitToFree \cup {o}
      rel == TokensCurrent
      freed1 == IF rel THEN freed \cup toFree ELSE freed
      toFree1 == IF rel THEN {} ELSE toFree
      inner1 == IF rel THEN mmEpoch ELSE innerEpoch
      sig1 == IF rel THEN FALSE ELSE sig
      hand == Cardinality(w1) > TH /\ inner1 = mmEpoch
      append == AppendPending /\ Cardinality(w1) > TH /\ inner1 # mmEpoch
  IN /\ freed' = IF FreeAtOnce THEN freed1 \cup {o} ELSE freed1
     /\ toFree' = IF hand THEN w1 ELSE IF append THEN toFree1 \cup w1 ELSE toFree1
     /\ waitToFree' = IF hand \/ append THEN {} ELSE w1
     /\ retAt' = (o :> mmEpoch) @@ retAt
     /\ mmEpoch' = IF hand THEN mmEpoch + 1 ELSE mmEpoch
     /\ innerEpoch' = inner1
     /\ sig' = IF hand THEN TRUE ELSE sig1

Announce(h) == IF sig THEN [tok EXCEPT ![h] = mmEpoch] ELSE tok

(* ---- an ordinary operation (try_send scanning the stream list, try_recv): announce, load, use, end *)
OpBegin(h) == /\ pc[h] = "idle" /\ h \in Live /\ nops[h] < MaxOps
              /\ tok' = IF AnnounceLate THEN tok ELSE Announce(h)
              /\ nops' = [nops EXCEPT ![h] = @ + 1]
              /\ Go(h, "load")
              /\ UNCHANGED <<gptr, nextObj, freed, waitToFree, toFree, mmEpoch, innerEpoch, sig, holds, cur, retAt>>
OpLoad(h) == /\ pc[h] = "load"
             /\ holds' = [holds EXCEPT ![h] = {gptr}] /\ cur' = [cur EXCEPT ![h] = gptr]
             /\ Go(h, "use")
             /\ UNCHANGED <<gptr, nextObj, freed, waitToFree, toFree, mmEpoch, innerEpoch, sig, tok, nops, retAt>>
\* the seqlock-style re-validation: if the pointer moved, scan the new list
OpUse(h) == /\ pc[h] = "use"
            /\ IF gptr # cur[h] THEN Go(h, "load") ELSE Go(h, "end")
            /\ UNCHANGED <<gptr, nextObj, freed, waitToFree, toFree, mmEpoch, innerEpoch, sig, tok, holds, cur, nops, retAt>>
OpEnd(h) == /\ pc[h] = "end"
            /\ holds' = [holds EXCEPT ![h] = {}]
            /\ tok' = IF AnnounceLate THEN Announce(h) ELSE tok
            /\ Go(h, "idle")
            /\ UNCHANGED <<gptr, nextObj, freed, waitToFree, toFree, mmEpoch, innerEpoch, sig, cur, nops, retAt>>

(* ---- add_stream / remove_reader: load, build a new list from the old one, CAS, retire the old one *)
SwapBegin(h) == /\ pc[h] = "idle" /\ h \in Churners /\ h \in Live /\ nops[h] < MaxOps /\ nextObj <= MaxObj
                /\ tok' = Announce(h)
                /\ nops' = [nops EXCEPT ![h] = @ + 1]
                /\ holds' = [holds EXCEPT ![h] = {gptr}] /\ cur' = [cur EXCEPT ![h] = gptr]
                /\ Go(h, "cas")
                /\ UNCHANGED <<gptr, nextObj, freed, waitToFree, toFree, mmEpoch, innerEpoch, sig, retAt>>
\* mutant only: the handle gives its token back first and then behaves like SwapBegin
SwapBeginLeaving(h) == /\ TokenlessSwap
                       /\ pc[h] = "idle" /\ h \in Churners /\ h \in Live /\ Cardinality(Live) > 1
                       /\ nops[h] < MaxOps /\ nextObj <= MaxObj
                       /\ tok' = [g \in Live \ {h} |-> tok[g]]
                       /\ nops' = [nops EXCEPT ![h] = @ + 1]
                       /\ holds' = [holds EXCEPT ![h] = {gptr}] /\ cur' = [cur EXCEPT ![h] = gptr]
                       /\ Go(h, "cas")
                       /\ UNCHANGED <<gptr, nextObj, freed, waitToFree, toFree, mmEpoch, innerEpoch, sig, retAt>>
SwapCas(h) == /\ pc[h] = "cas"
              /\ IF gptr = cur[h]
                 THEN /\ gptr' = nextObj /\ nextObj' = nextObj + 1 /\ Go(h, "retire")
                      /\ UNCHANGED <<holds, cur>>
                 ELSE /\ holds' = [holds EXCEPT ![h] = {gptr}] /\ cur' = [cur EXCEPT ![h] = gptr]
                      /\ UNCHANGED <<gptr, nextObj, pc>>
              /\ UNCHANGED <<freed, waitToFree, toFree, mmEpoch, innerEpoch, sig, tok, nops, retAt>>
SwapRetire(h) == /\ pc[h] = "retire"
                 /\ FreeSection(cur[h])
                 /\ holds' = [holds EXCEPT ![h] = {}]
                 /\ Go(h, "idle")
                 /\ UNCHANGED <<gptr, nextObj, tok, cur, nops>>

(* ---- a handle goes away: its token catches up and is removed (its own retirement is not modelled) *)
DropHandle(h) == /\ pc[h] = "idle" /\ h \in Live /\ Cardinality(Live) > 1
                 /\ tok' = [g \in Live \ {h} |-> tok[g]]
                 /\ UNCHANGED <<gptr, nextObj, freed, waitToFree, toFree, mmEpoch, innerEpoch, sig, pc, holds, cur, nops, retAt>>

Step(h) == \/ OpBegin(h) \/ OpLoad(h) \/ OpUse(h) \/ OpEnd(h)
           \/ SwapBegin(h) \/ SwapBeginLeaving(h) \/ SwapCas(h) \/ SwapRetire(h) \/ DropHandle(h)
Next == \E h \in Handles : Step(h)
Spec == Init /\ [][Next]_vars

(* C16 *)
NoUseAfterFree == \A h \in Handles : holds[h] \cap freed = {}
PublishedAlive == gptr \notin freed
NoDoubleRetire == waitToFree \cap toFree = {} /\ (waitToFree \cup toFree) \cap freed = {}
(* the rule the harness checks on every real release (event "earlyfree"): an object is released only after an
   epoch change that followed its hand-over *)
(* the rule behind the harness event "tokenless": only a handle that owns a token may hold a stream list *)
HoldersHaveTokens == \A h \in Handles : holds[h] # {} => h \in Live
ReleaseAfterBump == \A o \in freed : o \in DOMAIN retAt => retAt[o] < mmEpoch
=============================================================================
