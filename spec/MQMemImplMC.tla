---------------------------- MODULE MQMemImplMC ----------------------------
(***************************************************************************)
(* Closed system around MQMemImpl for exhaustive checking: every thread is *)
(* one handle and composes the actions of MQMemImpl the way the crate's    *)
(* handles do:                                                             *)
(*   operation (try_send scanning the stream list): signal load, announce  *)
(*       if the epoch bit is set, load the list, use it, load again and    *)
(*       repeat until the pointer is stable, return;                       *)
(*   swap (add_stream / remove_reader): signal load, announce, load, CAS   *)
(*       (retry from the value found), free(old list), return;             *)
(*   leave (drop): update_token, take the token off the list, free(token); *)
(*   join (clone): get_token.                                              *)
(* AnnounceAfterLoad is a seeded specification mutant (the announcement is *)
(* made while the list is already held); FirstTok = 2 and CheckInner =     *)
(* FALSE are the two others, inside MQMemImpl.                             *)
(***************************************************************************)
EXTENDS MQMemImpl

CONSTANTS Churners,          \* threads that swap the stream list
          Joiners,           \* threads that start without a token and join
          MaxOps, MaxId,
          AnnounceAfterLoad

VARIABLES ap,      \* [thread -> where it is in its public call]
          mytok,   \* [thread -> its token, 0 = none]
          nextId, nops

vars == <<mmvars, ap, mytok, nextId, nops>>

Init0 == LET H == Threads \ Joiners
             order == CHOOSE f \in [1..Cardinality(H) -> H] : \A i, j \in DOMAIN f : i # j => f[i] # f[j]
         IN /\ MMInit(0, 100, [i \in 1..Cardinality(H) |-> 100 + order[i]], [k \in {100 + h : h \in H} |-> 0], {}, FALSE)
            /\ ap = [t \in Threads |-> IF t \in Joiners THEN "unborn" ELSE "out"]
            /\ mytok = [t \in Threads |-> IF t \in Joiners THEN 0 ELSE 100 + t]
            /\ nextId = 1 /\ nops = [t \in Threads |-> 0]

After(a) == CASE a = "op_upd" -> "op_load" [] a = "sw_upd" -> "sw_load" [] a = "op_updL" -> "op_use"
              [] a = "sw_retire" -> "sw_end" [] a = "lv_upd" -> "lv_lock" [] a = "lv_lock" -> "lv_free"
              [] a = "lv_free" -> "dead" [] a = "jn" -> "out" [] OTHER -> a

Ap(t, a) == ap' = [ap EXCEPT ![t] = a]
Same == UNCHANGED <<mytok, nextId, nops>>
Live == {t \in Threads : mytok[t] # 0 /\ ap[t] \notin {"dead", "lv_free"}}

(* steps inside a memory-manager call; when the call is over the public call moves on *)
Inner(t) ==
  /\ pc[t] # "idle"
  /\ \/ UpdLoadTok(t, mytok[t]) /\ Same
     \/ UpdStore(t) /\ Same
     \/ ap[t] = "jn" /\ GetLoadEpoch(t) /\ Same
     \/ GetAlloc(t, nextId) /\ nextId' = nextId + 1 /\ mytok' = [mytok EXCEPT ![t] = nextId] /\ UNCHANGED nops
     \/ MmUnlockGet(t) /\ Same
     \/ ap[t] = "lv_lock" /\ MmUnlockRemove(t, mytok[t]) /\ Same
     \/ FLockWtf(t) /\ Same
     \/ FTryLock(t) /\ Same
     \/ FLoadEpoch(t) /\ Same
     \/ FLoadTok(t) /\ Same
     \/ (\E o \in lv[t].rem : FRelease(t, o)) /\ Same
     \/ FClear(t) /\ Same
     \/ FUnlockMm(t) /\ Same
     \/ STryLock(t) /\ Same
     \/ SLoadEpoch(t) /\ Same
     \/ SStore(t) /\ Same
     \/ SSet(t) /\ Same
     \/ SUnlock(t) /\ Same
     \/ FUnlockWtf(t) /\ Same
  /\ Ap(t, IF pc'[t] = "idle" THEN After(ap[t]) ELSE ap[t])

Start(t) ==
  /\ pc[t] = "idle"
  /\ \/ \* ---- operation
        /\ ap[t] = "out" /\ nops[t] < MaxOps /\ ~AnnounceAfterLoad
        /\ SigLoad(t) /\ Ap(t, IF sigE THEN "op_upd0" ELSE "op_load")
        /\ nops' = [nops EXCEPT ![t] = @ + 1] /\ UNCHANGED <<mytok, nextId>>
     \/ /\ ap[t] = "op_upd0" /\ UpdLoadEpoch(t) /\ Ap(t, "op_upd") /\ Same
     \/ /\ ap[t] = "op_load" /\ GLoad(t) /\ Ap(t, "op_use") /\ Same
     \/ /\ ap[t] = "op_use" /\ GLoad(t) /\ Ap(t, IF gptr \in holds[t] THEN "op_end" ELSE "op_use") /\ Same
     \/ /\ ap[t] \in {"op_end", "sw_end"} /\ CallEnd(t) /\ Ap(t, "out") /\ Same
        \* mutant: the list is loaded first, the announcement follows
     \/ /\ ap[t] = "out" /\ nops[t] < MaxOps /\ AnnounceAfterLoad
        /\ GLoad(t) /\ Ap(t, "op_sigL")
        /\ nops' = [nops EXCEPT ![t] = @ + 1] /\ UNCHANGED <<mytok, nextId>>
     \/ /\ ap[t] = "op_sigL" /\ SigLoad(t) /\ Ap(t, IF sigE THEN "op_updL0" ELSE "op_use") /\ Same
     \/ /\ ap[t] = "op_updL0" /\ UpdLoadEpoch(t) /\ Ap(t, "op_updL") /\ Same
     \* ---- swap
     \/ /\ ap[t] = "out" /\ t \in Churners /\ nops[t] < MaxOps /\ nextId <= MaxId
        /\ SigLoad(t) /\ Ap(t, IF sigE THEN "sw_upd0" ELSE "sw_load")
        /\ nops' = [nops EXCEPT ![t] = @ + 1] /\ UNCHANGED <<mytok, nextId>>
     \/ /\ ap[t] = "sw_upd0" /\ UpdLoadEpoch(t) /\ Ap(t, "sw_upd") /\ Same
     \/ /\ ap[t] = "sw_load" /\ GLoad(t) /\ Ap(t, "sw_cas") /\ Same
     \/ /\ ap[t] = "sw_cas"
        /\ LET exp == CHOOSE o \in holds[t] : TRUE IN
           /\ GCas(t, exp, nextId)
           /\ IF GCasOk(exp) THEN nextId' = nextId + 1 /\ Ap(t, "sw_retire0")
                             ELSE UNCHANGED nextId /\ Ap(t, "sw_cas")
        /\ UNCHANGED <<mytok, nops>>
     \/ /\ ap[t] = "sw_retire0" /\ (\E o \in holds[t] : Retire(t, o)) /\ Ap(t, "sw_retire") /\ Same
     \* ---- leave
     \/ /\ ap[t] = "out" /\ Cardinality(Live) > 1 /\ nops[t] < MaxOps
        /\ UpdLoadEpoch(t) /\ Ap(t, "lv_upd")
        /\ nops' = [nops EXCEPT ![t] = MaxOps] /\ UNCHANGED <<mytok, nextId>>
     \/ /\ ap[t] = "lv_lock" /\ MmLock(t) /\ Ap(t, "lv_lock") /\ Same
     \/ /\ ap[t] = "lv_free" /\ Retire(t, mytok[t]) /\ Ap(t, "lv_free") /\ Same
     \* ---- join
     \/ /\ ap[t] = "unborn" /\ MmLock(t) /\ Ap(t, "jn") /\ Same

Next == \E t \in Threads : Start(t) \/ Inner(t)
Spec == Init0 /\ [][Next]_vars

\* a token that is examined or refreshed is one that has not been released
TokensAlive == \A i \in DOMAIN tokens : tokens[i] \notin freed
Inv == NoUseAfterFree /\ PublishedAlive /\ NoDoubleRetire /\ NoLostBatch /\ LocksSound /\ BatchPending /\ TokensAlive
=============================================================================
