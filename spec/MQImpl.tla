------------------------------- MODULE MQImpl -------------------------------
(***************************************************************************)
(* The algorithm of multiqueue2, one action per shared-memory operation    *)
(* of the real code (atomic load/store/RMW/CAS, fence, mutex, condvar, and *)
(* the harness-level scheduling points "call" and "pyield" = midpoint of a *)
(* payload clone / view closure).  Written to be bound: every action emits *)
(* the descriptor <<thread, kind, location, value, ok>> of the operation   *)
(* the real code must perform at that step, and behaviours generated from  *)
(* this module are replayed in lockstep on the real crate (src/multiqueue.rs*)
(* src/read_cursor.rs, src/wait.rs).  The memory manager (memory.rs) and   *)
(* the futures layer are specified in MQMem and MQFut; their operations    *)
(* are transparent here.                                                   *)
(*                                                                         *)
(* A configuration is a closed scenario: ring size N, flavour BCAST (clone *)
(* out, with slot pins) or move-out, a wait strategy, an initial topology  *)
(* of handles, one program per thread, and a Final program run by thread 0 *)
(* after all others have finished (quiescence probe).                      *)
(***************************************************************************)
EXTENDS Naturals, Integers, Sequences, FiniteSets, TLC, Json

CONSTANTS N,          \* ring size (power of two)
          BCAST,      \* TRUE: broadcast flavour, FALSE: mpmc flavour
          WaitKind,   \* "busy" | "yield" (YieldingWait, zero spins) | "block" (BlockingWait, zero spins)
                      \* | "fut" (futures queue: FutWait with zero spins, Sink/Stream calls, tasks)
          Threads,    \* set of thread ids (positive integers); thread 0 runs Final
          Prog,       \* [Threads -> Seq(op)]   op = [op, h, new]
          Final,      \* Seq(op) for thread 0
          Senders0,   \* set of initial sender handle names
          Recv0,      \* [initial receiver handle name -> stream name]
          StreamSeq0, \* the initial streams in creation order (= order in the published list)
          NotifyOnEmptyPoll, \* TRUE: the repaired Stream::poll (an empty poll wakes parked senders); FALSE: the
                             \* original code, a seeded specification mutant that TLC must refute (lost wake-up)
          LastStreamStays, \* TRUE: the repaired remove_reader (the last stream stays registered); FALSE: the
                           \* original code, kept as a seeded specification mutant (TLC must refute it)
          RecordHist, \* keep the op history (behaviour generation) or not (exhaustive checking)
          MaxPre      \* bound on preemptions when RecordHist

VARIABLES mem, hnd, thr, gh, hist

vars == <<mem, hnd, thr, gh, hist>>

INIT == -1            \* the never-written tag
AllT == Threads \cup {0}
Idx(x) == x % N
Max2(a, b) == IF a > b THEN a ELSE b
StreamsOf(g) == {g[i] : i \in 1..Len(g)}
Without(q, s) == SelectSeq(q, LAMBDA x : x # s)

NoLoc == [h |-> "", newh |-> "", hd |-> 0, tcv |-> 0, gp |-> 0, gi |-> 0, md |-> 0, far |-> FALSE,
          mode |-> "", p |-> 0, single |-> FALSE, astate |-> "", val |-> -1, seq |-> 0, cur |-> 0,
          block |-> FALSE, k |-> -1, s |-> "", op |-> "", fut |-> ""]

InitStreams == {Recv0[h] : h \in DOMAIN Recv0}
RECURSIVE SetToSeq(_)
SetToSeq(S) == IF S = {} THEN <<>> ELSE LET x == CHOOSE y \in S : TRUE IN <<x>> \o SetToSeq(S \ {x})

Init ==
  /\ mem = [head |-> 0, tc |-> 0, writers |-> Cardinality(Senders0),
            tag |-> [i \in 0..N-1 |-> INIT], slotv |-> [i \in 0..N-1 |-> -1],
            refcnt |-> [i \in 0..N-1 |-> 0],
            pos |-> [s \in InitStreams |-> 0],
            ncons |-> [s \in InitStreams |-> Cardinality({h \in DOMAIN Recv0 : Recv0[h] = s})],
            gptr |-> 0, groups |-> (0 :> StreamSeq0), nextg |-> 1,
            noR |-> FALSE, lock |-> -1, cvw |-> {}, woken |-> {},
            clock |-> -1, plock |-> -1,      \* holders of the consumer / producer parked-list mutexes
            cpark |-> {}, ppark |-> {},      \* parked tasks (task id = thread id)
            notified |-> {}]
  /\ hnd = [h \in Senders0 \cup DOMAIN Recv0 |->
              IF h \in Senders0
              THEN [kind |-> "S", st |-> IF Cardinality(Senders0) = 1 THEN "Uni" ELSE "Multi", stream |-> ""]
              ELSE [kind |-> "R",
                    st |-> IF Cardinality({g \in DOMAIN Recv0 : Recv0[g] = Recv0[h]}) = 1 THEN "Single" ELSE "Multi",
                    stream |-> Recv0[h]]]
  /\ thr = [t \in AllT |-> [pc |-> "idle", prog |-> IF t = 0 THEN Final ELSE Prog[t], res |-> <<>>, l |-> NoLoc]]
  /\ gh = [log |-> <<>>,
           sgot |-> [s \in InitStreams |-> <<>>],
           start |-> [s \in InitStreams |-> 0],
           bad |-> {},
           cloning |-> [t \in AllT |-> -1],    \* slot a thread is cloning/viewing, -1 if none
           expq |-> <<>>,                      \* expected results of the final (non-overlapped) calls
           inq |-> {},                         \* payloads (by value id) the queue currently owns
           lastpos |-> -1,                     \* cursor of the last stream when its last receiver left
           nval |-> 0, npre |-> 0, last |-> -1]
  /\ hist = <<>>

(* ------------------------------------------------------------------ helpers *)
L(t) == thr[t].l
PC(t) == thr[t].pc
H(t) == L(t).h
S(t) == hnd[H(t)].stream
Published == StreamsOf(mem.groups[mem.gptr])

\* next thread state: goto label with updated locals
Go(t, lbl, newl) == thr' = [thr EXCEPT ![t] = [@ EXCEPT !.pc = lbl, !.l = newl]]
Goto(t, lbl) == Go(t, lbl, L(t))
\* return from the current call
Ret(t, r) == thr' = [thr EXCEPT ![t] = [@ EXCEPT !.pc = "idle", !.l = NoLoc,
                                                 !.res = Append(@, [op |-> L(t).op, h |-> L(t).h, k |-> r, v |-> -1])]]
RetVal(t, v) == thr' = [thr EXCEPT ![t] = [@ EXCEPT !.pc = "idle", !.l = NoLoc,
                                                    !.res = Append(@, [op |-> L(t).op, h |-> L(t).h, k |-> "Val", v |-> v])]]

\* a result of try_send: returned to the caller, or handed back to send_or_park when called from start_send
SRet(t, r) == IF L(t).fut = "send" THEN Go(t, "fs_res", [L(t) EXCEPT !.s = r]) ELSE Ret(t, r)

\* op descriptor for lockstep replay: <<thread, kind, location, value, ok>>; "*" = not compared
Emit(t, kind, loc, val, ok) ==
  /\ hist' = IF RecordHist THEN Append(hist, <<t, kind, loc, val, ok>>) ELSE hist
Pre(t) == \* preemption accounting for bounded behaviour generation
  LET sw == gh.last # -1 /\ gh.last # t /\ PC(gh.last) # "idle"
            /\ ~(PC(gh.last) \in {"b_c1", "b_c2", "bw_wake", "by_yield", "by_c1", "by_c2"})
  IN IF RecordHist THEN [gh EXCEPT !.npre = IF sw THEN @ + 1 ELSE @, !.last = t] ELSE gh
Ghost(t) == gh' = Pre(t)
GhostBad(t, b) == gh' = [Pre(t) EXCEPT !.bad = @ \cup b]

TagLoc(i) == "tag[" \o ToString(i) \o "]"
RefLoc(i) == "refcnt[" \o ToString(i) \o "]"
PosLoc(s) == "pos:" \o s
NcLoc(s) == "ncons:" \o s
TagVal(x) == IF x = INIT THEN "init" ELSE x

AllOthersDone == \A u \in Threads : thr[u].pc = "idle" /\ thr[u].prog = <<>>

(* expected result of a non-overlapped call of the final phase, from the quiescent memory *)
MinPos == IF Published = {} THEN mem.head ELSE
          LET S0 == {mem.pos[s] : s \in Published} IN CHOOSE x \in S0 : \A y \in S0 : x <= y
ExpFinal(op) ==
  CASE op.op \in {"send", "ssend"} -> IF mem.noR THEN "Disc" ELSE IF mem.head - MinPos >= N THEN "Full" ELSE "Ok"
    [] op.op \in {"recv", "view", "poll"} ->
         LET s == hnd[op.h].stream IN
         IF mem.pos[s] < mem.head THEN "Val" ELSE IF mem.writers = 0 THEN "Disc" ELSE "Empty"
    [] OTHER -> ""

(* ------------------------------------------------------------------ call start *)
Start(t) ==
  /\ PC(t) = "idle" /\ thr[t].prog # <<>>
  /\ (t = 0 => AllOthersDone)
  /\ LET op == Head(thr[t].prog)
         l0 == [NoLoc EXCEPT !.h = op.h, !.newh = op.new, !.op = op.op]
         first == CASE op.op = "send" -> "s_sig"
                    [] op.op \in {"ssend", "fsend"} -> "fs_lock"
                    [] op.op \in {"poll", "frecv", "frecv_all"} -> "r_sig"
                    [] op.op \in {"recv", "brecv"} -> "r_sig"
                    [] op.op \in {"view", "bview"} -> "r_sig"
                    [] op.op = "into_single" -> "is_load"
                    [] op.op = "into_multi" -> "idle"
                    [] op.op = "add_stream" -> "a_gp"
                    [] op.op = "clone" -> IF hnd[op.h].kind = "S" THEN "cs_add" ELSE "cr_add"
                    [] op.op \in {"drop", "unsub"} -> IF hnd[op.h].kind = "S" THEN "ds_sub" ELSE "dr_sub"
     IN /\ thr' = [thr EXCEPT ![t] = [@ EXCEPT !.pc = first, !.prog = Tail(@),
                                             !.res = IF op.op = "into_multi"
                                                     THEN Append(@, [op |-> "into_multi", h |-> op.h, k |-> "Ok", v |-> -1])
                                                     ELSE @,
                                             !.l = [l0 EXCEPT !.block = (op.op \in {"brecv", "bview"}),
                                                              !.fut = CASE op.op \in {"ssend", "fsend"} -> "send"
                                                                        [] op.op \in {"poll", "frecv", "frecv_all"} -> "poll"
                                                                        \* FutInnerRecv::try_recv: try_recv, then notify_all
                                                                        [] op.op = "recv" /\ WaitKind = "fut" -> "direct"
                                                                        [] OTHER -> "",
                                                              !.k = IF op.op \in {"send", "ssend", "fsend"}
                                                                    THEN gh.nval ELSE -1]]]
        /\ gh' = [Pre(t) EXCEPT !.nval = IF op.op \in {"send", "ssend", "fsend"} THEN @ + 1 ELSE @,
                                !.expq = IF t = 0 THEN Append(@, ExpFinal(op)) ELSE @]
  /\ Emit(t, "call", "-", "*", TRUE)
  /\ mem' = IF Head(thr[t].prog).op \in {"ssend", "fsend", "poll", "frecv", "frecv_all"}
            THEN [mem EXCEPT !.notified = @ \ {t}] ELSE mem
  /\ UNCHANGED hnd

(* ------------------------------------------------------------------ try_send *)
SSig(t) == /\ PC(t) = "s_sig"
           /\ Emit(t, "load", "signal", IF mem.noR THEN 2 ELSE 0, TRUE)
           /\ IF mem.noR THEN SRet(t, "Disc")
              ELSE Goto(t, IF hnd[H(t)].st = "Uni" THEN "ss_head" ELSE "s_wr")
           /\ Ghost(t) /\ UNCHANGED <<mem, hnd>>

SWr(t) == /\ PC(t) = "s_wr"
          /\ Emit(t, "load", "writers", mem.writers, TRUE)
          /\ Goto(t, IF mem.writers = 1 THEN "s_wrf" ELSE "sm_head")
          /\ Ghost(t) /\ UNCHANGED <<mem, hnd>>

SWrF(t) == /\ PC(t) = "s_wrf"
           /\ Emit(t, "fence", "-", "*", TRUE)
           /\ hnd' = [hnd EXCEPT ![H(t)].st = "Uni"]
           /\ Goto(t, "ss_head")
           /\ Ghost(t) /\ UNCHANGED mem

SHead(t) == /\ PC(t) \in {"ss_head", "sm_head"}
            /\ Emit(t, "load", "head", mem.head, TRUE)
            /\ Go(t, "s_tc", [L(t) EXCEPT !.hd = mem.head, !.mode = IF PC(t) = "ss_head" THEN "s" ELSE "m"])
            /\ Ghost(t) /\ UNCHANGED <<mem, hnd>>

AfterTail == IF BCAST THEN "s_ref" ELSE "s_fence"

STc(t) == /\ PC(t) = "s_tc"
          /\ Emit(t, "load", "tail_cache", mem.tc, TRUE)
          /\ Go(t, IF L(t).hd - N = mem.tc THEN "g_ptr" ELSE AfterTail, [L(t) EXCEPT !.tcv = mem.tc])
          /\ Ghost(t) /\ UNCHANGED <<mem, hnd>>

GPtr(t) == /\ PC(t) = "g_ptr"
           /\ Emit(t, "load", "gptr", "*", TRUE)
           /\ Go(t, IF Len(mem.groups[mem.gptr]) = 0 THEN "g_chk" ELSE "g_rd",
                 [L(t) EXCEPT !.gp = mem.gptr, !.gi = 1, !.md = 0, !.far = FALSE])
           /\ Ghost(t) /\ UNCHANGED <<mem, hnd>>

GRd(t) == /\ PC(t) = "g_rd"
          /\ LET g == mem.groups[L(t).gp]
                 s == g[L(t).gi]
                 rp == mem.pos[s] IN
             /\ Emit(t, "load", PosLoc(s), rp, TRUE)
             /\ IF rp > L(t).hd
                THEN Go(t, "g_chk", [L(t) EXCEPT !.far = TRUE])
                ELSE Go(t, IF L(t).gi + 1 > Len(g) THEN "g_chk" ELSE "g_rd",
                        [L(t) EXCEPT !.md = Max2(@, L(t).hd - rp), !.gi = @ + 1])
          /\ Ghost(t) /\ UNCHANGED <<mem, hnd>>

Full(t) == SRet(t, "Full")

GChk(t) ==
  /\ PC(t) = "g_chk"
  /\ Emit(t, "load", "gptr", "*", TRUE)
  /\ IF mem.gptr # L(t).gp THEN Goto(t, "g_ptr") /\ Ghost(t)
     ELSE IF L(t).mode = "s"
          THEN IF L(t).far THEN Ret(t, "Panic") /\ GhostBad(t, {"panic"})
               ELSE Go(t, "ss_tcst", [L(t) EXCEPT !.cur = L(t).hd - L(t).md]) /\ Ghost(t)
          ELSE IF L(t).far THEN Goto(t, "sm_tcld") /\ Ghost(t)
               ELSE LET cur == L(t).hd - L(t).md IN
                    /\ Ghost(t)
                    /\ IF L(t).tcv = cur
                       THEN IF L(t).hd - N = cur THEN Full(t) ELSE Goto(t, AfterTail)
                       ELSE Go(t, "sm_tccas", [L(t) EXCEPT !.cur = cur])
  /\ UNCHANGED <<mem, hnd>>

SsTcSt(t) == /\ PC(t) = "ss_tcst"
             /\ Emit(t, "store", "tail_cache", L(t).cur, TRUE)
             /\ mem' = [mem EXCEPT !.tc = L(t).cur]
             /\ IF L(t).hd - N = L(t).cur THEN Full(t) ELSE Goto(t, AfterTail)
             /\ Ghost(t) /\ UNCHANGED hnd

SmTcCas(t) == /\ PC(t) = "sm_tccas"
              /\ LET ok == mem.tc = L(t).tcv
                     nt == IF ok THEN L(t).cur ELSE mem.tc IN
                 /\ Emit(t, "cas", "tail_cache", mem.tc, ok)
                 /\ mem' = [mem EXCEPT !.tc = nt]
                 /\ IF L(t).hd - N = nt THEN Full(t) ELSE Goto(t, AfterTail)
              /\ Ghost(t) /\ UNCHANGED hnd

SmTcLd(t) == /\ PC(t) = "sm_tcld"
             /\ Emit(t, "load", "tail_cache", mem.tc, TRUE)
             /\ IF L(t).hd - N = mem.tc THEN Full(t) ELSE Goto(t, AfterTail)
             /\ Ghost(t) /\ UNCHANGED <<mem, hnd>>

SRef(t) == /\ PC(t) = "s_ref"
           /\ Emit(t, "load", RefLoc(Idx(L(t).hd)), mem.refcnt[Idx(L(t).hd)], TRUE)
           /\ IF mem.refcnt[Idx(L(t).hd)] # 0 THEN Full(t) ELSE Goto(t, "s_fence")
           /\ Ghost(t) /\ UNCHANGED <<mem, hnd>>

SFence(t) == /\ PC(t) = "s_fence"
             /\ Emit(t, "fence", "-", "*", TRUE)
             /\ Goto(t, IF L(t).mode = "s" THEN "ss_commit" ELSE "sm_cas")
             /\ Ghost(t) /\ UNCHANGED <<mem, hnd>>

\* claiming slot hd: the value becomes the (hd+1)-th of the log
ClaimBad(t) == (IF \E s \in Published : L(t).hd + 1 - mem.pos[s] > N THEN {"C03"} ELSE {})
ClaimGhost(t) == gh' = [Pre(t) EXCEPT !.log = Append(@, L(t).k), !.bad = @ \cup ClaimBad(t)]

SsCommit(t) == /\ PC(t) = "ss_commit"
               /\ Emit(t, "store", "head", L(t).hd + 1, TRUE)
               /\ mem' = [mem EXCEPT !.head = L(t).hd + 1]
               /\ ClaimGhost(t) /\ Goto(t, "w_tag")
               /\ UNCHANGED hnd

SmCas(t) == /\ PC(t) = "sm_cas"
            /\ LET ok == mem.head = L(t).hd IN
               /\ Emit(t, "cas", "head", mem.head, ok)
               /\ IF ok THEN /\ mem' = [mem EXCEPT !.head = L(t).hd + 1]
                             /\ ClaimGhost(t) /\ Goto(t, "w_tag")
                  ELSE /\ Go(t, "s_tc", [L(t) EXCEPT !.hd = mem.head])
                       /\ Ghost(t) /\ UNCHANGED mem
            /\ UNCHANGED hnd

\* load of the old tag; the payload is written right after it, before the next scheduling point
WTag(t) == /\ PC(t) = "w_tag"
           /\ LET i == Idx(L(t).hd) IN
              /\ Emit(t, "load", TagLoc(i), TagVal(mem.tag[i]), TRUE)
              /\ mem' = [mem EXCEPT !.slotv[i] = L(t).k]
              /\ LET old == mem.slotv[i]
                     \* broadcast: the overwritten value is dropped by the writer (it must still be owned);
                     \* move-out: nothing is dropped, so the old value must already have been moved out
                     b1 == IF \E c \in AllT : gh.cloning[c] = i THEN {"C04"} ELSE {}
                     b2 == IF BCAST THEN (IF mem.tag[i] # INIT /\ old \notin gh.inq THEN {"C05"} ELSE {})
                           ELSE (IF old \in gh.inq THEN {"C05"} ELSE {})
                 IN gh' = [Pre(t) EXCEPT !.bad = @ \cup b1 \cup b2,
                                        !.inq = (IF BCAST /\ mem.tag[i] # INIT THEN @ \ {old} ELSE @) \cup {L(t).k}]
           /\ Goto(t, "w_pub")
           /\ UNCHANGED hnd

NeedsNotify == WaitKind \in {"block", "fut"}
NotifyEntry == IF WaitKind = "fut" THEN "fn_lock" ELSE "n_lock"

WPub(t) == /\ PC(t) = "w_pub"
           /\ LET i == Idx(L(t).hd) IN
              /\ Emit(t, "store", TagLoc(i), L(t).hd, TRUE)
              /\ mem' = [mem EXCEPT !.tag[i] = L(t).hd]
           /\ IF NeedsNotify THEN Go(t, NotifyEntry, [L(t) EXCEPT !.s = "Ok", !.mode = "in_try"]) ELSE SRet(t, "Ok")
           /\ Ghost(t) /\ UNCHANGED hnd

(* BlockingWait::notify = lock; notify_all; unlock. Used after a successful send and by a sender's drop *)
NLock(t) == /\ PC(t) = "n_lock" /\ mem.lock = -1
            /\ Emit(t, "lock", "waitlock", "*", TRUE)
            /\ mem' = [mem EXCEPT !.lock = t]
            /\ Goto(t, "n_cv") /\ Ghost(t) /\ UNCHANGED hnd
NCv(t) == /\ PC(t) = "n_cv"
          /\ Emit(t, "cvnotify", "waitcv", "*", TRUE)
          /\ mem' = [mem EXCEPT !.woken = @ \cup mem.cvw, !.cvw = {}]
          /\ Goto(t, "n_unlock") /\ Ghost(t) /\ UNCHANGED hnd
NUnlock(t) == /\ PC(t) = "n_unlock"
              /\ Emit(t, "unlock", "waitlock", "*", TRUE)
              /\ mem' = [mem EXCEPT !.lock = -1]
              /\ Ret(t, L(t).s) /\ Ghost(t) /\ UNCHANGED hnd

(* ------------------------------------------------------------------ try_recv / recv / try_recv_view *)
IsView(t) == L(t).op \in {"view", "bview"}
\* where recv / recv_view start their next attempt after a wait
RetryTarget(t) == IF IsView(t) THEN (IF hnd[H(t)].st = "Multi" THEN "r_la" ELSE "r_pos") ELSE "r_single"

RSig(t) == /\ PC(t) = "r_sig"
           /\ Emit(t, "load", "signal", IF mem.noR THEN 2 ELSE 0, TRUE)
           /\ Goto(t, IF IsView(t) THEN (IF hnd[H(t)].st = "Multi" THEN "r_la" ELSE "r_pos") ELSE "r_single")
           /\ Ghost(t) /\ UNCHANGED <<mem, hnd>>

RLa(t) == /\ PC(t) = "r_la"
          /\ Emit(t, "load", NcLoc(S(t)), mem.ncons[S(t)], TRUE)
          /\ Goto(t, IF mem.ncons[S(t)] = 1 THEN "r_laf" ELSE "r_pos")
          /\ Ghost(t) /\ UNCHANGED <<mem, hnd>>

RLaF(t) == /\ PC(t) = "r_laf"
           /\ Emit(t, "fence", "-", "*", TRUE)
           /\ hnd' = [hnd EXCEPT ![H(t)].st = "Single"]
           /\ Goto(t, "r_pos") /\ Ghost(t) /\ UNCHANGED mem

RPos(t) == /\ PC(t) = "r_pos"
           /\ Emit(t, "load", PosLoc(S(t)), mem.pos[S(t)], TRUE)
           /\ Go(t, "r_tag",
                 [L(t) EXCEPT !.p = mem.pos[S(t)], !.astate = hnd[H(t)].st, !.single = (IsView(t) \/ @)])
           /\ Ghost(t) /\ UNCHANGED <<mem, hnd>>

\* "am I alone on this stream" is decided before the cursor is loaded
RSingle(t) == /\ PC(t) = "r_single"
              /\ Emit(t, "load", NcLoc(S(t)), mem.ncons[S(t)], TRUE)
              /\ Go(t, IF hnd[H(t)].st = "Multi" THEN "r_la" ELSE "r_pos", [L(t) EXCEPT !.single = (mem.ncons[S(t)] = 1)])
              /\ Ghost(t) /\ UNCHANGED <<mem, hnd>>

\* the value is read (move-out) or the clone/view begins right after the deciding load
TakeMove(t, i) == [L(t) EXCEPT !.val = mem.slotv[i]]
BeginClone(t, i) == gh' = [Pre(t) EXCEPT !.cloning[t] = i]
NeedsYield(t) == BCAST \/ IsView(t)

RTag(t) ==
  /\ PC(t) = "r_tag"
  /\ LET i == Idx(L(t).p) IN
     /\ Emit(t, "load", TagLoc(i), TagVal(mem.tag[i]), TRUE)
     /\ IF mem.tag[i] # L(t).p THEN Goto(t, "r_wr") /\ Ghost(t)
        ELSE IF L(t).single
             THEN Go(t, IF NeedsYield(t) THEN "r_py" ELSE "r_fence", TakeMove(t, i))
                  /\ (IF NeedsYield(t) THEN BeginClone(t, i) ELSE Ghost(t))
             ELSE Goto(t, IF BCAST THEN "r_pin" ELSE "r_recheck") /\ Ghost(t)
  /\ UNCHANGED <<mem, hnd>>

EmptyRes(t) == IF L(t).fut = "poll" THEN Goto(t, IF NotifyOnEmptyPoll THEN "pe_lock" ELSE "pk_cnt")
               ELSE IF L(t).fut = "direct" THEN Go(t, "pd_lock", [L(t) EXCEPT !.s = "Empty"])
               ELSE IF L(t).block THEN Goto(t, "b_cnt")
               ELSE Ret(t, "Empty")
EmptyBad(t) == {}

RWr(t) == /\ PC(t) = "r_wr"
          /\ Emit(t, "load", "writers", mem.writers, TRUE)
          /\ IF mem.writers = 0 THEN Goto(t, "r_wrf") /\ Ghost(t)
             ELSE EmptyRes(t) /\ GhostBad(t, EmptyBad(t))
          /\ UNCHANGED <<mem, hnd>>

RWrF(t) == /\ PC(t) = "r_wrf"
           /\ Emit(t, "fence", "-", "*", TRUE)
           /\ Goto(t, "r_tag2") /\ Ghost(t) /\ UNCHANGED <<mem, hnd>>

DiscBad(t) == IF mem.writers # 0 \/ mem.pos[S(t)] # Len(gh.log) THEN {"C07"} ELSE {}
DiscRes(t) == IF L(t).fut = "direct" THEN Go(t, "pd_lock", [L(t) EXCEPT !.s = "Disc"])
              ELSE IF L(t).block THEN Ret(t, "Err") ELSE Ret(t, "Disc")

RTag2(t) == /\ PC(t) = "r_tag2"
            /\ LET i == Idx(L(t).p) IN
               /\ Emit(t, "load", TagLoc(i), TagVal(mem.tag[i]), TRUE)
               /\ IF mem.tag[i] # L(t).p
                  THEN IF L(t).single THEN DiscRes(t) /\ GhostBad(t, DiscBad(t))
                       ELSE Goto(t, "r_dchk") /\ Ghost(t)
                  ELSE EmptyRes(t) /\ GhostBad(t, EmptyBad(t))
            /\ UNCHANGED <<mem, hnd>>

\* the end is only reported from the stream's current position
RDchk(t) == /\ PC(t) = "r_dchk"
            /\ Emit(t, "load", PosLoc(S(t)), mem.pos[S(t)], TRUE)
            /\ IF mem.pos[S(t)] # L(t).p THEN Goto(t, "r_reload") /\ Ghost(t)
               ELSE DiscRes(t) /\ GhostBad(t, DiscBad(t))
            /\ UNCHANGED <<mem, hnd>>

RPin(t) == /\ PC(t) = "r_pin"
           /\ LET i == Idx(L(t).p) IN
              /\ Emit(t, "fadd", RefLoc(i), mem.refcnt[i], TRUE)
              /\ mem' = [mem EXCEPT !.refcnt[i] = @ + 1]
           /\ Goto(t, "r_recheck") /\ Ghost(t) /\ UNCHANGED hnd

RRecheck(t) ==
  /\ PC(t) = "r_recheck"
  /\ Emit(t, "load", PosLoc(S(t)), mem.pos[S(t)], TRUE)
  /\ LET i == Idx(L(t).p) IN
     IF mem.pos[S(t)] # L(t).p
     THEN Goto(t, IF BCAST THEN "r_unpin" ELSE "r_reload") /\ Ghost(t)
     ELSE Go(t, IF BCAST THEN "r_py" ELSE "r_fence", TakeMove(t, i))
          /\ (IF BCAST THEN BeginClone(t, i) ELSE Ghost(t))
  /\ UNCHANGED <<mem, hnd>>

RUnpin(t) == /\ PC(t) \in {"r_unpin", "r_unpin2"}
             /\ LET i == Idx(L(t).p) IN
                /\ Emit(t, "fsub", RefLoc(i), mem.refcnt[i], TRUE)
                /\ mem' = [mem EXCEPT !.refcnt[i] = @ - 1]
             /\ Goto(t, IF PC(t) = "r_unpin" THEN "r_reload" ELSE "r_commit")
             /\ Ghost(t) /\ UNCHANGED hnd

RReload(t) == /\ PC(t) = "r_reload"
              /\ Emit(t, "load", PosLoc(S(t)), mem.pos[S(t)], TRUE)
              /\ Go(t, "r_tag", [L(t) EXCEPT !.p = mem.pos[S(t)]])
              /\ Ghost(t) /\ UNCHANGED <<mem, hnd>>

\* midpoint of the payload clone / of the view closure: the slot must not have changed
RPy(t) == /\ PC(t) = "r_py"
          /\ Emit(t, "pyield", "-", "*", TRUE)
          /\ LET i == Idx(L(t).p) IN
             gh' = [Pre(t) EXCEPT !.cloning[t] = -1,
                                  !.bad = @ \cup (IF mem.slotv[i] # L(t).val THEN {"C04"} ELSE {})]
          /\ Goto(t, IF IsView(t) THEN "v_commit" ELSE "r_fence")
          /\ UNCHANGED <<mem, hnd>>

RFence(t) == /\ PC(t) = "r_fence"
             /\ Emit(t, "fence", "-", "*", TRUE)
             /\ Goto(t, IF ~L(t).single /\ BCAST THEN "r_unpin2" ELSE "r_commit")
             /\ Ghost(t) /\ UNCHANGED <<mem, hnd>>

\* move-out flavour: the consumer now owns the value (a view destroys it in place); it must have been owned
\* a delivered value: returned, or (Stream::poll) the producers are notified first
GotVal(t) == IF L(t).fut \in {"poll", "direct"} THEN Goto(t, "pn_lock") ELSE RetVal(t, L(t).val)
Deliver(t) == [Pre(t) EXCEPT !.sgot[S(t)] = Append(@, L(t).val),
                             !.inq = IF BCAST THEN @ ELSE @ \ {L(t).val},
                             !.bad = @ \cup (IF ~BCAST /\ L(t).val \notin gh.inq THEN {"C05"} ELSE {})]

RCommit(t) ==
  /\ PC(t) = "r_commit"
  /\ IF L(t).astate = "Single"
     THEN /\ Emit(t, "store", PosLoc(S(t)), L(t).p + 1, TRUE)
          /\ mem' = [mem EXCEPT !.pos[S(t)] = L(t).p + 1]
          /\ gh' = Deliver(t) /\ GotVal(t)
     ELSE LET ok == mem.pos[S(t)] = L(t).p IN
          /\ Emit(t, "cas", PosLoc(S(t)), mem.pos[S(t)], ok)
          /\ IF ok THEN /\ mem' = [mem EXCEPT !.pos[S(t)] = L(t).p + 1]
                        /\ gh' = Deliver(t) /\ GotVal(t)
             ELSE /\ Go(t, "r_tag", [L(t) EXCEPT !.p = mem.pos[S(t)]])
                  /\ Ghost(t) /\ UNCHANGED mem
  /\ UNCHANGED hnd

VCommit(t) == /\ PC(t) = "v_commit"
              /\ Emit(t, "store", PosLoc(S(t)), L(t).p + 1, TRUE)
              /\ mem' = [mem EXCEPT !.pos[S(t)] = L(t).p + 1]
              /\ gh' = Deliver(t) /\ GotVal(t)
              /\ UNCHANGED hnd

(* blocking recv: cursor reload, then Wait::wait on the slot of that count *)
BCnt(t) == /\ PC(t) = "b_cnt"
           /\ Emit(t, "load", PosLoc(S(t)), mem.pos[S(t)], TRUE)
           /\ Go(t, CASE WaitKind = "busy" -> "b_c1" [] WaitKind = "yield" -> "by_yield" [] OTHER -> "bw_lock",
                 [L(t) EXCEPT !.seq = mem.pos[S(t)]])
           /\ Ghost(t) /\ UNCHANGED <<mem, hnd>>

Ready(t) == mem.writers = 0 \/ (L(t).cur # INIT /\ (L(t).cur = L(t).seq \/ L(t).cur > L(t).seq))

\* check = load of the slot tag, then load of the writer count
Chk1(t, from, to) == /\ PC(t) = from
                     /\ LET i == Idx(L(t).seq) IN
                        /\ Emit(t, "load", TagLoc(i), TagVal(mem.tag[i]), TRUE)
                        /\ Go(t, to, [L(t) EXCEPT !.cur = mem.tag[i]])
                     /\ Ghost(t) /\ UNCHANGED <<mem, hnd>>
Chk2(t, from, yes, no) == /\ PC(t) = from
                          /\ Emit(t, "load", "writers", mem.writers, TRUE)
                          /\ Goto(t, IF Ready(t) THEN yes ELSE no)
                          /\ Ghost(t) /\ UNCHANGED <<mem, hnd>>

\* YieldingWait with zero spins: yield, then one check, for ever
ByYield(t) == /\ PC(t) = "by_yield"
              /\ Emit(t, "yield", "-", "*", TRUE)
              /\ Goto(t, "by_c1") /\ Ghost(t) /\ UNCHANGED <<mem, hnd>>
ByC1(t) == Chk1(t, "by_c1", "by_c2")
ByC2(t) == Chk2(t, "by_c2", RetryTarget(t), "by_yield")

BC1(t) == Chk1(t, "b_c1", "b_c2")
BC2(t) == Chk2(t, "b_c2", RetryTarget(t), "b_c1")

BwLock(t) == /\ PC(t) = "bw_lock" /\ mem.lock = -1
             /\ Emit(t, "lock", "waitlock", "*", TRUE)
             /\ mem' = [mem EXCEPT !.lock = t]
             /\ Goto(t, "bw_c1") /\ Ghost(t) /\ UNCHANGED hnd
BwC1(t) == Chk1(t, "bw_c1", "bw_c2")
BwC2(t) == Chk2(t, "bw_c2", "bw_unlock_ret", "bw_wait")
BwUnlockRet(t) == /\ PC(t) = "bw_unlock_ret"
                  /\ Emit(t, "unlock", "waitlock", "*", TRUE)
                  /\ mem' = [mem EXCEPT !.lock = -1]
                  /\ Goto(t, RetryTarget(t)) /\ Ghost(t) /\ UNCHANGED hnd
BwWait(t) == /\ PC(t) = "bw_wait"
             /\ Emit(t, "cvwait", "waitcv", "*", TRUE)
             /\ mem' = [mem EXCEPT !.lock = -1, !.cvw = @ \cup {t}]
             /\ Goto(t, "bw_wake") /\ Ghost(t) /\ UNCHANGED hnd
BwWake(t) == /\ PC(t) = "bw_wake" /\ t \in mem.woken /\ mem.lock = -1
             /\ Emit(t, "cvwake", "waitcv", "*", TRUE)
             /\ mem' = [mem EXCEPT !.lock = t, !.woken = @ \ {t}]
             /\ Goto(t, "bw_unlock") /\ Ghost(t) /\ UNCHANGED hnd
BwUnlock(t) == /\ PC(t) = "bw_unlock"
               /\ Emit(t, "unlock", "waitlock", "*", TRUE)
               /\ mem' = [mem EXCEPT !.lock = -1]
               /\ Goto(t, "bw_c3") /\ Ghost(t) /\ UNCHANGED hnd
BwC3(t) == Chk1(t, "bw_c3", "bw_c4")
BwC4(t) == Chk2(t, "bw_c4", RetryTarget(t), "bw_lock")

(* ------------------------------------------------------------------ futures layer (WaitKind = "fut") *)
(* FutWait::notify on the consumer list: lock; take the parked tasks out; unlock; then notify them *)
FnLock(t) == /\ PC(t) = "fn_lock" /\ mem.clock = -1
             /\ Emit(t, "lock", "cons_parked", "*", TRUE)
             /\ mem' = [mem EXCEPT !.clock = t]
             /\ Goto(t, "fn_unlock") /\ Ghost(t) /\ UNCHANGED hnd
FnUnlock(t) == /\ PC(t) = "fn_unlock"
               /\ Emit(t, "unlock", "cons_parked", "*", TRUE)
               /\ mem' = [mem EXCEPT !.clock = -1, !.notified = @ \cup mem.cpark, !.cpark = {}]
               /\ IF L(t).mode = "in_try"
                  THEN SRet(t, "Ok")          \* the notify inside try_send: back to the caller / to send_or_park
                  ELSE Ret(t, L(t).s)          \* start_send's own notify, or a sender's drop
               /\ Ghost(t) /\ UNCHANGED hnd

(* Sink::start_send = send_or_park with zero spins: lock the producer list, try_send, park under the lock on Full *)
FsLock(t) == /\ PC(t) = "fs_lock" /\ mem.plock = -1
             /\ Emit(t, "lock", "prod_parked", "*", TRUE)
             /\ mem' = [mem EXCEPT !.plock = t]
             /\ Goto(t, "s_sig") /\ Ghost(t) /\ UNCHANGED hnd
\* try_send came back with L(t).s: Full parks the task (same step as the unlock), then the list is unlocked
FsRes(t) == /\ PC(t) = "fs_res"
            /\ Emit(t, "unlock", "prod_parked", "*", TRUE)
            /\ mem' = [mem EXCEPT !.plock = -1, !.ppark = IF L(t).s = "Full" THEN @ \cup {t} ELSE @]
            /\ CASE L(t).s = "Ok" -> Go(t, "fn_lock", [L(t) EXCEPT !.mode = "own"])    \* start_send's own notify
                 [] L(t).s = "Full" -> IF L(t).op = "fsend" THEN Goto(t, "tw") ELSE Ret(t, "Full")
                 [] OTHER -> Ret(t, L(t).s)
            /\ Ghost(t) /\ UNCHANGED hnd

(* Stream::poll, value taken: prod_wait.notify_all() = lock; notify every parked sender; unlock *)
PnLock(t) == /\ PC(t) = "pn_lock" /\ mem.plock = -1
             /\ Emit(t, "lock", "prod_parked", "*", TRUE)
             /\ mem' = [mem EXCEPT !.plock = t, !.notified = @ \cup mem.ppark, !.ppark = {}]
             /\ Goto(t, "pn_unlock") /\ Ghost(t) /\ UNCHANGED hnd
PnUnlock(t) == /\ PC(t) = "pn_unlock"
               /\ Emit(t, "unlock", "prod_parked", "*", TRUE)
               /\ mem' = [mem EXCEPT !.plock = -1]
               /\ IF L(t).op = "frecv_all"
                  THEN thr' = [thr EXCEPT ![t] = [@ EXCEPT !.pc = "recall",
                                                           !.res = Append(@, [op |-> "poll", h |-> L(t).h, k |-> "Val", v |-> L(t).val])]]
                  ELSE RetVal(t, L(t).val)
               /\ Ghost(t) /\ UNCHANGED hnd
(* direct try_recv on a futures receiver that found nothing: notify_all, then the result *)
PdLock(t) == /\ PC(t) = "pd_lock" /\ mem.plock = -1
             /\ Emit(t, "lock", "prod_parked", "*", TRUE)
             /\ mem' = [mem EXCEPT !.plock = t, !.notified = @ \cup mem.ppark, !.ppark = {}]
             /\ Goto(t, "pd_unlock") /\ Ghost(t) /\ UNCHANGED hnd
PdUnlock(t) == /\ PC(t) = "pd_unlock"
               /\ Emit(t, "unlock", "prod_parked", "*", TRUE)
               /\ mem' = [mem EXCEPT !.plock = -1]
               /\ Ret(t, L(t).s) /\ Ghost(t) /\ UNCHANGED hnd
(* Stream::poll, nothing there: wake the senders (a transient pin may have parked one), reload the cursor,
   park under the consumer-list lock after re-checking, sleep, NotReady *)
PeLock(t) == /\ PC(t) = "pe_lock" /\ mem.plock = -1
             /\ Emit(t, "lock", "prod_parked", "*", TRUE)
             /\ mem' = [mem EXCEPT !.plock = t, !.notified = @ \cup mem.ppark, !.ppark = {}]
             /\ Goto(t, "pe_unlock") /\ Ghost(t) /\ UNCHANGED hnd
PeUnlock(t) == /\ PC(t) = "pe_unlock"
               /\ Emit(t, "unlock", "prod_parked", "*", TRUE)
               /\ mem' = [mem EXCEPT !.plock = -1]
               /\ Goto(t, "pk_cnt") /\ Ghost(t) /\ UNCHANGED hnd
PkCnt(t) == /\ PC(t) = "pk_cnt"
            /\ Emit(t, "load", PosLoc(S(t)), mem.pos[S(t)], TRUE)
            /\ Go(t, "pk_lock", [L(t) EXCEPT !.seq = mem.pos[S(t)]])
            /\ Ghost(t) /\ UNCHANGED <<mem, hnd>>
PkLock(t) == /\ PC(t) = "pk_lock" /\ mem.clock = -1
             /\ Emit(t, "lock", "cons_parked", "*", TRUE)
             /\ mem' = [mem EXCEPT !.clock = t]
             /\ Goto(t, "pk_c1") /\ Ghost(t) /\ UNCHANGED hnd
PkC1(t) == Chk1(t, "pk_c1", "pk_c2")
PkC2(t) == Chk2(t, "pk_c2", "pk_unlock_retry", "pk_unlock_park")
PkUnlockRetry(t) == /\ PC(t) = "pk_unlock_retry"
                    /\ Emit(t, "unlock", "cons_parked", "*", TRUE)
                    /\ mem' = [mem EXCEPT !.clock = -1]
                    /\ Goto(t, "r_single") /\ Ghost(t) /\ UNCHANGED hnd
PkUnlockPark(t) == /\ PC(t) = "pk_unlock_park"
                   /\ Emit(t, "unlock", "cons_parked", "*", TRUE)
                   /\ mem' = [mem EXCEPT !.clock = -1, !.cpark = @ \cup {t}]
                   /\ Goto(t, "pk_sleep") /\ Ghost(t) /\ UNCHANGED hnd
PkSleep(t) == /\ PC(t) = "pk_sleep"
              /\ Emit(t, "sleep", "-", "*", TRUE)
              /\ IF L(t).op = "poll" THEN Ret(t, "Empty") ELSE Goto(t, "tw")
              /\ Ghost(t) /\ UNCHANGED <<mem, hnd>>

(* a task that got NotReady waits for its notification, then the harness calls again *)
TaskWake(t) == /\ PC(t) = "tw" /\ t \in mem.notified
               /\ Emit(t, "taskwait", "*", "*", TRUE)
               /\ Goto(t, "recall") /\ Ghost(t) /\ UNCHANGED <<mem, hnd>>
Recall(t) == /\ PC(t) = "recall"
             /\ Emit(t, "call", "-", "*", TRUE)
             /\ mem' = [mem EXCEPT !.notified = @ \ {t}]
             /\ Goto(t, IF L(t).fut = "send" THEN "fs_lock" ELSE "r_sig")
             /\ Ghost(t) /\ UNCHANGED hnd

(* ------------------------------------------------------------------ add_stream *)
AGp(t) == /\ PC(t) = "a_gp"
          /\ Emit(t, "load", "gptr", "*", TRUE)
          /\ Go(t, "a_raw", [L(t) EXCEPT !.gp = mem.gptr])
          /\ Ghost(t) /\ UNCHANGED <<mem, hnd>>
ARaw(t) == /\ PC(t) = "a_raw"
           /\ Emit(t, "load", PosLoc(S(t)), mem.pos[S(t)], TRUE)
           /\ Go(t, "a_f1", [L(t) EXCEPT !.p = mem.pos[S(t)]])
           /\ Ghost(t) /\ UNCHANGED <<mem, hnd>>
AF1(t) == /\ PC(t) = "a_f1" /\ Emit(t, "fence", "-", "*", TRUE)
          /\ Goto(t, "a_cas") /\ Ghost(t) /\ UNCHANGED <<mem, hnd>>
ACas(t) ==
  /\ PC(t) = "a_cas"
  /\ LET ok == mem.gptr = L(t).gp
         ns == L(t).newh
         ng == mem.nextg IN
     /\ Emit(t, "cas", "gptr", "*", ok)
     /\ IF ok
        THEN /\ mem' = [mem EXCEPT !.groups = @ @@ (ng :> Append(mem.groups[mem.gptr], ns)),
                                   !.gptr = ng, !.nextg = @ + 1,
                                   !.pos = @ @@ (ns :> L(t).p), !.ncons = @ @@ (ns :> 1)]
             /\ hnd' = hnd @@ (ns :> [kind |-> "R", st |-> "Single", stream |-> ns])
             /\ gh' = [Pre(t) EXCEPT !.sgot = @ @@ (ns :> <<>>), !.start = @ @@ (ns :> L(t).p),
                                     !.bad = @ \cup (IF mem.head - L(t).p > N THEN {"C10"} ELSE {})]
             /\ Goto(t, "a_f2")
        ELSE /\ Go(t, "a_f3", [L(t) EXCEPT !.gp = mem.gptr])
             /\ Ghost(t) /\ UNCHANGED <<mem, hnd>>
AF2(t) == /\ PC(t) = "a_f2" /\ Emit(t, "fence", "-", "*", TRUE)
          /\ Ret(t, "Ok") /\ Ghost(t) /\ UNCHANGED <<mem, hnd>>
AF3(t) == /\ PC(t) = "a_f3" /\ Emit(t, "fence", "-", "*", TRUE)
          /\ Goto(t, "a_raw") /\ Ghost(t) /\ UNCHANGED <<mem, hnd>>

(* ------------------------------------------------------------------ into_single (plain receivers) *)
IsLoad(t) == /\ PC(t) = "is_load"
             /\ Emit(t, "load", NcLoc(S(t)), mem.ncons[S(t)], TRUE)
             /\ Ret(t, IF mem.ncons[S(t)] = 1 THEN "Ok" ELSE "Err")
             /\ Ghost(t) /\ UNCHANGED <<mem, hnd>>

(* ------------------------------------------------------------------ clone / drop *)
CsAdd(t) == /\ PC(t) = "cs_add"
            /\ Emit(t, "fadd", "writers", mem.writers, TRUE)
            /\ mem' = [mem EXCEPT !.writers = @ + 1]
            /\ hnd' = [hnd EXCEPT ![H(t)].st = "Multi"] @@ (L(t).newh :> [kind |-> "S", st |-> "Multi", stream |-> ""])
            /\ Ret(t, "Ok") /\ Ghost(t)
CrAdd(t) == /\ PC(t) = "cr_add"
            /\ Emit(t, "fadd", NcLoc(S(t)), mem.ncons[S(t)], TRUE)
            /\ mem' = [mem EXCEPT !.ncons[S(t)] = @ + 1]
            /\ hnd' = [hnd EXCEPT ![H(t)].st = "Multi"] @@ (L(t).newh :> [kind |-> "R", st |-> "Multi", stream |-> S(t)])
            /\ Ret(t, "Ok") /\ Ghost(t)

DsSub(t) == /\ PC(t) = "ds_sub"
            /\ Emit(t, "fsub", "writers", mem.writers, TRUE)
            /\ mem' = [mem EXCEPT !.writers = @ - 1]
            /\ Goto(t, "ds_f") /\ Ghost(t) /\ UNCHANGED hnd
DsF(t) == /\ PC(t) = "ds_f" /\ Emit(t, "fence", "-", "*", TRUE)
          /\ IF NeedsNotify THEN Go(t, NotifyEntry, [L(t) EXCEPT !.s = "Ok", !.mode = "drop"]) ELSE Ret(t, "Ok")
          /\ Ghost(t) /\ UNCHANGED <<mem, hnd>>

DropRes(t, last) == IF L(t).op = "unsub" THEN (IF last THEN "True" ELSE "False") ELSE "Ok"

DrSub(t) == /\ PC(t) = "dr_sub"
            /\ Emit(t, "fsub", NcLoc(S(t)), mem.ncons[S(t)], TRUE)
            /\ mem' = [mem EXCEPT !.ncons[S(t)] = @ - 1]
            /\ Go(t, IF mem.ncons[S(t)] = 1 THEN "dr_gp" ELSE "dr_f",
                  [L(t) EXCEPT !.s = DropRes(t, mem.ncons[S(t)] = 1)])
            /\ Ghost(t) /\ UNCHANGED hnd
DrGp(t) == /\ PC(t) = "dr_gp"
           /\ Emit(t, "load", "gptr", "*", TRUE)
           /\ Go(t, IF LastStreamStays /\ Len(mem.groups[mem.gptr]) = 1 THEN "dr_lp" ELSE "dr_cas",
                 [L(t) EXCEPT !.gp = mem.gptr])
           /\ Ghost(t) /\ UNCHANGED <<mem, hnd>>
\* the last stream stays registered; its final position is remembered for teardown
DrLp(t) == /\ PC(t) = "dr_lp"
           /\ Emit(t, "load", PosLoc(S(t)), mem.pos[S(t)], TRUE)
           /\ Goto(t, IF LastStreamStays THEN "dr_set" ELSE "dr_has")
           /\ gh' = [Pre(t) EXCEPT !.lastpos = mem.pos[S(t)]] /\ UNCHANGED <<mem, hnd>>
DrSet(t) == /\ PC(t) = "dr_set"
            /\ Emit(t, "for", "signal", "*", TRUE)
            /\ mem' = [mem EXCEPT !.noR = TRUE]
            /\ Goto(t, "dr_f") /\ Ghost(t) /\ UNCHANGED hnd
DrCas(t) ==
  /\ PC(t) = "dr_cas"
  /\ LET ok == mem.gptr = L(t).gp
         ng == mem.nextg IN
     /\ Emit(t, "cas", "gptr", "*", ok)
     /\ IF ok
        THEN /\ mem' = [mem EXCEPT !.groups = @ @@ (ng :> Without(mem.groups[mem.gptr], S(t))),
                                   !.gptr = ng, !.nextg = @ + 1]
             /\ Goto(t, "dr_f1")
        ELSE /\ Go(t, IF LastStreamStays /\ Len(mem.groups[mem.gptr]) = 1 THEN "dr_lp" ELSE "dr_cas",
                   [L(t) EXCEPT !.gp = mem.gptr])
             /\ UNCHANGED mem
  /\ Ghost(t) /\ UNCHANGED hnd
\* (original code only) the removed stream was the last one: remember its cursor for teardown
DrF1(t) == /\ PC(t) = "dr_f1" /\ Emit(t, "fence", "-", "*", TRUE)
           /\ Goto(t, IF Len(mem.groups[L(t).gp]) = 1 THEN "dr_lp" ELSE "dr_has") /\ Ghost(t) /\ UNCHANGED <<mem, hnd>>
DrHas(t) == /\ PC(t) = "dr_has"
            /\ Emit(t, "load", "gptr", "*", TRUE)
            /\ Goto(t, IF Len(mem.groups[mem.gptr]) = 0 THEN "dr_set" ELSE "dr_f") /\ Ghost(t) /\ UNCHANGED <<mem, hnd>>
DrF(t) == /\ PC(t) = "dr_f" /\ Emit(t, "fence", "-", "*", TRUE)
          /\ IF WaitKind = "fut" THEN Goto(t, "dp_lock") ELSE Ret(t, L(t).s)
          /\ Ghost(t) /\ UNCHANGED <<mem, hnd>>
\* Drop for FutInnerRecv: prod_wait.notify() (FutWait::notify on the producer list)
DpLock(t) == /\ PC(t) = "dp_lock" /\ mem.plock = -1
             /\ Emit(t, "lock", "prod_parked", "*", TRUE)
             /\ mem' = [mem EXCEPT !.plock = t]
             /\ Goto(t, "dp_unlock") /\ Ghost(t) /\ UNCHANGED hnd
DpUnlock(t) == /\ PC(t) = "dp_unlock"
               /\ Emit(t, "unlock", "prod_parked", "*", TRUE)
               /\ mem' = [mem EXCEPT !.plock = -1, !.notified = @ \cup mem.ppark, !.ppark = {}]
               /\ Ret(t, L(t).s) /\ Ghost(t) /\ UNCHANGED hnd

(* ------------------------------------------------------------------ next-state *)
Step(t) ==
  \/ Start(t)
  \/ SSig(t) \/ SWr(t) \/ SWrF(t) \/ SHead(t) \/ STc(t) \/ GPtr(t) \/ GRd(t) \/ GChk(t) \/ SsTcSt(t)
  \/ SmTcCas(t) \/ SmTcLd(t) \/ SRef(t) \/ SFence(t) \/ SsCommit(t) \/ SmCas(t) \/ WTag(t) \/ WPub(t)
  \/ NLock(t) \/ NCv(t) \/ NUnlock(t)
  \/ RSig(t) \/ RLa(t) \/ RLaF(t) \/ RPos(t) \/ RSingle(t) \/ RTag(t) \/ RWr(t) \/ RWrF(t) \/ RTag2(t)
  \/ RDchk(t) \/ RPin(t) \/ RRecheck(t) \/ RUnpin(t) \/ RReload(t) \/ RPy(t) \/ RFence(t) \/ RCommit(t)
  \/ VCommit(t) \/ BCnt(t) \/ BC1(t) \/ BC2(t) \/ ByYield(t) \/ ByC1(t) \/ ByC2(t) \/ BwLock(t) \/ BwC1(t) \/ BwC2(t) \/ BwUnlockRet(t)
  \/ BwWait(t) \/ BwWake(t) \/ BwUnlock(t) \/ BwC3(t) \/ BwC4(t)
  \/ FnLock(t) \/ FnUnlock(t) \/ FsLock(t) \/ FsRes(t) \/ PnLock(t) \/ PnUnlock(t) \/ PeLock(t) \/ PeUnlock(t)
  \/ PkCnt(t) \/ PkLock(t) \/ PkC1(t) \/ PkC2(t) \/ PkUnlockRetry(t) \/ PkUnlockPark(t) \/ PkSleep(t)
  \/ TaskWake(t) \/ Recall(t) \/ PdLock(t) \/ PdUnlock(t)
  \/ AGp(t) \/ ARaw(t) \/ AF1(t) \/ ACas(t) \/ AF2(t) \/ AF3(t)
  \/ IsLoad(t) \/ CsAdd(t) \/ CrAdd(t) \/ DsSub(t) \/ DsF(t) \/ DrSub(t) \/ DrGp(t) \/ DrLp(t) \/ DrSet(t) \/ DrCas(t)
  \/ DrF1(t) \/ DrHas(t) \/ DrF(t) \/ DpLock(t) \/ DpUnlock(t)

Next == \E t \in AllT : Step(t)
Spec == Init /\ [][Next]_vars
(* with every thread scheduled fairly, every scenario runs to completion (cross-check of C08 by a temporal
   property; checked without state constraints on the smallest blocking configurations) *)
FairSpec == Spec /\ \A t \in AllT : WF_vars(Step(t))

(* ------------------------------------------------------------------ properties *)
NoBad == gh.bad = {}
Segment(s) == \A i \in 1..Len(gh.sgot[s]) :
                gh.start[s] + i <= Len(gh.log) /\ gh.sgot[s][i] = gh.log[gh.start[s] + i]
(* C01/C02: what a stream has delivered is exactly the contiguous run of the log from its start *)
ExactlyOnceInOrder == \A s \in DOMAIN gh.sgot : Segment(s)
(* C03: no published stream is ever more than N behind the claim counter *)
Window == \A s \in Published : mem.head - mem.pos[s] <= N
Done == \A t \in AllT : thr[t].pc = "idle" /\ thr[t].prog = <<>>
(* C06: at quiescence nothing is pinned, and the non-overlapped calls of the final phase return exactly
   what the quiescent memory state promises *)
QuiescentClean == Done => \A i \in 0..N-1 : mem.refcnt[i] = 0
FinalMatches == \A i \in 1..Len(thr[0].res) : gh.expq[i] = "" \/ thr[0].res[i].k = gh.expq[i]
(* C08: nobody is left waiting while the slot it waits for is published or all writers are gone *)
Waiting(t) == PC(t) \in {"b_c1", "b_c2", "bw_wake", "bw_lock", "bw_c1", "bw_c2", "bw_c3", "bw_c4", "bw_wait",
                         "bw_unlock", "bw_unlock_ret"}
CanMove(t) == ENABLED Step(t)
Quiescent == \A t \in AllT : (thr[t].pc = "idle" /\ (thr[t].prog = <<>> \/ (t = 0 /\ ~AllOthersDone))) \/ PC(t) = "bw_wake"
NoStuck == ~(Quiescent /\ \E t \in AllT : PC(t) = "bw_wake" /\ t \notin mem.woken /\
              (mem.writers = 0 \/ mem.tag[Idx(mem.pos[S(t)])] = mem.pos[S(t)]))
(* C14 at op level: when nothing can move any more, no task waits for a notification although the queue
   could make progress for it *)
TaskCanProgress(t) ==
  IF L(t).fut = "send" THEN mem.noR \/ (mem.head - MinPos < N /\ mem.refcnt[Idx(mem.head)] = 0)
  ELSE mem.writers = 0 \/ mem.tag[Idx(mem.pos[S(t)])] = mem.pos[S(t)]
FutQuiescent == \A t \in AllT : \/ (thr[t].pc = "idle" /\ (thr[t].prog = <<>> \/ (t = 0 /\ ~AllOthersDone)))
                                 \/ (PC(t) = "tw" /\ t \notin mem.notified)
NoLostWakeup == ~(FutQuiescent /\ \E t \in AllT : PC(t) = "tw" /\ t \notin mem.notified /\ TaskCanProgress(t))

(* busy waiting: a spinning consumer whose value is there always gets out: checked as "no cycle" by the
   constraint-free state graph being finite and NoBad; the blocking strategy is checked by NoStuck *)

(* C05 at teardown (Drop for MultiQueue): broadcast destroys every slot that was ever written, move-out
   destroys the slots from last_pos to head; together with the drops above every payload the queue took
   is destroyed exactly once *)
TeardownClean ==
  Done => IF BCAST
          THEN gh.inq = {mem.slotv[i] : i \in {j \in 0..N-1 : mem.tag[j] # INIT}}
          ELSE (mem.noR /\ gh.lastpos >= 0) =>
                 /\ mem.head - gh.lastpos <= N
                 /\ gh.inq = {mem.slotv[Idx(c)] : c \in gh.lastpos..(mem.head - 1)}

Termination == <>[](\A t \in AllT : thr[t].pc = "idle" /\ thr[t].prog = <<>>)

PreBound == gh.npre <= MaxPre
Replayed == Done => PrintT(<<"REPLAY", ToJson(hist)>>)
View == <<mem, hnd, thr, [gh EXCEPT !.npre = 0, !.last = -1]>>
=============================================================================
