SPECIFICATION Spec
CONSTANT Strict = TRUE
CONSTRAINT Reg
POSTCONDITION Accepted
CHECK_DEADLOCK FALSE
