SPECIFICATION Spec
CONSTANT Ignore = {}
CONSTANT Strict = TRUE
CONSTRAINT Reg
POSTCONDITION Accepted
CHECK_DEADLOCK FALSE
