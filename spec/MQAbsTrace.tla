----------------------------- MODULE MQAbsTrace -----------------------------
(***************************************************************************)
(* Trace specification: decides whether an API-level trace recorded from   *)
(* the real crate (call/return events with logical order, payload ledger   *)
(* events, allocation and task events, stuck reports) is a behaviour of    *)
(* the reference model MQAbs under the concurrency rules of the listed     *)
(* properties:                                                             *)
(*   - every call takes effect atomically at some point between its call   *)
(*     and its return (linearisation search, C01/C02/C03/C07/C10/C11/C13); *)
(*   - a try_send/try_recv may return Full/Empty spuriously only when some *)
(*     other call overlapped it (C06);                                     *)
(*   - payload instances: clone/view sources are live and unchanged for the*)
(*     whole clone/view, every instance is dropped exactly once (C04/C05); *)
(*   - blocked / parked threads are only accepted when the model gives     *)
(*     them nothing to do (C08/C14), non-blocking calls never get stuck    *)
(*     (C15/C18), no use of freed bookkeeping (C16), no allocation left at *)
(*     the end (C17), no panic (C09).                                      *)
(*                                                                         *)
(* One trace file holds many runs, each starting with a "reset" line.      *)
(* Strict = TRUE : a requirement that fails blocks the behaviour; the trace*)
(*   is accepted iff some behaviour consumes every line.                   *)
(* Strict = FALSE: (diagnosis of one rejected run) failed requirements are *)
(*   recorded in viol and the observed effect is followed; behaviours with *)
(*   more than two distinct violated ids are pruned.  The set of viol     *)
(*   values of complete behaviours is reported (the driver keeps the ones  *)
(*   of minimum size).                                                     *)
(***************************************************************************)
EXTENDS MQAbs, Json, IOUtils

CONSTANT Strict,
         Ignore    \* ids that do not block in strict mode (a second pass of a check that looks for its own ids only)

Rec == ndJsonDeserialize(IOEnv.TRACE)
NRec == Len(Rec)

VARIABLES l,      \* next line to consume
          q,      \* abstract queue state
          pend,   \* thread -> pending call
          led,    \* payload ledger
          viol    \* violated property ids (diagnosis mode)

vars == <<l, q, pend, led, viol>>

Threads == 0..8
NoCall == [op |-> "none"]
LedInit == [live |-> {}, busy |-> {}, ck |-> <<>>]

RECURSIVE SeqsOver(_)
SeqsOver(S) == IF S = {} THEN {<<>>}
               ELSE {<<>>} \cup UNION { { <<x>> \o r : r \in SeqsOver(S \ {x}) } : x \in S }

IndexOfVal(log, v) == IF \E i \in 1..Len(log) : log[i] = v
                      THEN CHOOSE i \in 1..Len(log) : log[i] = v ELSE 0

Init == /\ l = 1
        /\ q = AInit(1)
        /\ pend = [t \in Threads |-> NoCall]
        /\ led = LedInit
        /\ viol = {}
        /\ TLCSet(1, 1)
        /\ TLCSet(2, {})

E == Rec[l]
Is(e) == l <= NRec /\ E.e = e

(* record requirement failures: block in strict mode *)
Flag(bad) == /\ (Strict => bad \ Ignore = {})
             /\ viol' = IF Strict THEN viol ELSE viol \cup bad

Pending(t) == pend[t].op # "none"
OthersPending(t) == {u \in Threads : u # t /\ Pending(u)}

(* ------------------------------------------------------------------ *)
Reset == /\ Is("reset")
         /\ q' = AInit(E.cap)
         /\ pend' = [t \in Threads |-> NoCall]
         /\ led' = LedInit
         /\ viol' = viol
         /\ l' = l + 1

Call == /\ Is("call")
        /\ LET t == E.t
               ov == OthersPending(t) # {} IN
           pend' = [u \in Threads |->
                      IF u = t THEN [op |-> E.op, h |-> E.h, v |-> E.v, new |-> E.new, hk |-> E.hk,
                                     api |-> E.api, lin |-> FALSE, res |-> "", rv |-> -1, ov |-> ov,
                                     \* was the stream already at its end when the call began?
                                     endAtCall |-> (E.op \in {"recv", "brecv"} /\ IsRecv(q, E.h)
                                                    /\ RecvRes(q, E.h) = "Disc"),
                                     noRAtCall |-> q.noR]
                      ELSE IF Pending(u) THEN [pend[u] EXCEPT !.ov = TRUE] ELSE pend[u]]
        /\ UNCHANGED <<q, led, viol>>
        /\ l' = l + 1

(* A receiver drop that takes effect before its own return is applied in two steps, as the code does it:
   the stream leaves the published list first (senders computed from then on are not limited by it,
   and with no stream left nothing limits them), the no-reader flag is raised before the call returns. *)
IsRecvDrop(qq, c) == c.op \in {"drop", "unsub"} /\ IsRecv(qq, c.h)
ApplyEarly(qq, c) ==
  IF IsRecvDrop(qq, c) THEN <<DoDropRecvStream(qq, c.h), Apply(qq, c)[2], -1>> ELSE Apply(qq, c)

(* linearise the calls of seq (threads) in order, with the model's own results *)
RECURSIVE LinSeq(_, _, _)
LinSeq(qq, pp, seq) ==
  IF seq = <<>> THEN <<TRUE, qq, pp>>
  ELSE LET u == Head(seq)
           c == pp[u] IN
       IF ~CanApply(qq, c) THEN <<FALSE, qq, pp>>
       ELSE LET a == ApplyEarly(qq, c) IN
            LinSeq(a[1], [pp EXCEPT ![u] = [c EXCEPT !.lin = TRUE, !.res = a[2], !.rv = a[3]]], Tail(seq))

(* state change implied by the observed result of call c *)
EffObs(qq, c, r, v) ==
  CASE c.op = "send" -> IF r = "Ok" THEN DoSend(qq, c.v) ELSE qq
    [] c.op \in {"recv", "brecv"} ->
         IF r = "Val" /\ IsRecv(qq, c.h)
         THEN LET j == IndexOfVal(qq.log, v)
                  s == qq.hs[c.h] IN
              [qq EXCEPT !.cur[s] = IF j > @ THEN j ELSE @ + 1]
         ELSE qq
    [] OTHER -> IF CanApply(qq, c) THEN Apply(qq, c)[1] ELSE qq

(* requirements on the observed result (r, v, same) of call c linearised in state qq *)
Bad(qq, c, r, v, same) ==
  IF r = "Panic" THEN {"C09"}
  ELSE IF r = "Unsupported" THEN {}
  ELSE IF ~CanApply(qq, c) /\ c.op # "brecv" THEN {"C09"}
  ELSE
  CASE c.op = "send" ->
         LET mr == SendRes(qq) IN
         (IF ~same THEN {"C05"} ELSE {}) \cup
         (CASE r = "Ok"   -> IF mr = "Disc" THEN {"C13"} ELSE IF mr = "Full" THEN {"C03"} ELSE {}
            \* the last receiver left while this overlapped send was under way: Full may still be the answer of
            \* a moment inside the call; only a send that began with no receiver must say Disconnected
            [] r = "Full" -> IF mr = "Full" THEN {}
                             ELSE IF mr = "Disc" THEN (IF c.ov /\ ~c.noRAtCall THEN {} ELSE {"C13"})
                             ELSE IF c.ov THEN {} ELSE {"C06"}
            \* the no-reader flag is raised inside the drop call of the last receiver, after its stream has
            \* stopped counting: a send overlapping that call may already see it
            [] r = "Disc" -> IF mr = "Disc" \/ Streams(qq) = {} THEN {} ELSE {"C13"}
            [] OTHER -> {"C09"})
    [] c.op \in {"recv", "brecv"} ->
         LET mr == RecvRes(qq, c.h) IN
         CASE r = "Val"   -> IF mr = "Val" /\ RecvVal(qq, c.h) = v THEN {} ELSE {"C01C02"}
           \* a stream that reports Empty (not overlapped) or the end while an accepted value is still due to it
           \* has lost that value: joint ids with C01
           [] r = "Empty" -> IF c.op = "brecv" THEN {"C09"}
                             ELSE IF mr = "Empty" THEN {}
                             \* the end was reached while this overlapped call was under way: Empty is still the
                             \* answer of a moment inside the call; only a call that began at the end must say so
                             ELSE IF mr = "Disc" THEN (IF c.ov /\ ~c.endAtCall THEN {} ELSE {"C07"})
                             ELSE IF c.ov THEN {} ELSE {"C01C06"}
           [] r = "Disc"  -> IF mr = "Disc" THEN {} ELSE IF mr = "Val" THEN {"C01C07"} ELSE {"C07"}
           [] r = "End"   -> IF mr \in {"Empty", "Disc"} THEN {} ELSE IF c.ov THEN {} ELSE {"C01C06"}
           [] OTHER -> {"C09"}
    [] c.op = "unsub" -> IF Apply(qq, c)[2] = r THEN {} ELSE {"C11"}
    [] OTHER -> IF Apply(qq, c)[2] = r THEN {} ELSE {"C09"}

Ret == /\ Is("ret")
       /\ LET t == E.t
              c == pend[t] IN
          /\ c.op # "none"
          /\ IF c.lin
             THEN \* took effect earlier (chosen at another call's return): the prediction must hold
                  /\ c.res = E.r
                  /\ (c.res = "Val" => c.rv = E.v)
                  /\ pend' = [pend EXCEPT ![t] = NoCall]
                  /\ q' = IF c.op \in {"drop", "unsub"} THEN MarkNoReaders(q) ELSE q
                  /\ UNCHANGED viol
             ELSE \E seq \in SeqsOver({u \in OthersPending(t) : ~pend[u].lin}) :
                  \E k \in (IF IsRecvDrop(q, c) THEN 0..Len(seq) ELSE {Len(seq)}) :
                    \* calls of other threads that take effect before this one ...
                    LET ls == LinSeq(q, pend, SubSeq(seq, 1, k)) IN
                    /\ ls[1]
                    /\ LET q1 == ls[2]
                           p1 == ls[3]
                           bad == Bad(q1, c, E.r, E.v, E.same)
                           \* ... and, for a receiver drop, between its two halves
                           q2 == IF k < Len(seq) THEN DoDropRecvStream(q1, c.h) ELSE EffObs(q1, c, E.r, E.v)
                           ls2 == LinSeq(q2, p1, SubSeq(seq, k + 1, Len(seq))) IN
                       /\ Flag(bad)
                       /\ ls2[1]
                       /\ q' = IF k < Len(seq) THEN MarkNoReaders(ls2[2]) ELSE q2
                       /\ pend' = [ls2[3] EXCEPT ![t] = NoCall]
       /\ UNCHANGED led
       /\ l' = l + 1

(* ------------------------------ payload ledger ------------------------------ *)
Born == /\ Is("born")
        /\ led' = [led EXCEPT !.live = @ \cup {E.s}]
        /\ UNCHANGED <<q, pend, viol>>
        /\ l' = l + 1

ObsBegin == /\ (Is("cb") \/ Is("vb"))
            /\ Flag(IF E.valid /\ E.s \in led.live THEN {} ELSE {"C04"})
            /\ led' = [led EXCEPT !.busy = @ \cup {<<E.t, E.s>>}]
            /\ UNCHANGED <<q, pend>>
            /\ l' = l + 1

ObsEnd == /\ (Is("ce") \/ Is("ve"))
          /\ Flag(IF E.ok /\ (E.s = 0 \/ E.s \in led.live) THEN {} ELSE {"C04"})
          /\ led' = [led EXCEPT !.busy = @ \ {<<E.t, E.s>>},
                                !.live = IF E.e = "ce" THEN @ \cup {E.n} ELSE @]
          /\ UNCHANGED <<q, pend>>
          /\ l' = l + 1

DropEv == /\ Is("drop")
          /\ Flag((IF E.valid /\ E.s \in led.live THEN {} ELSE {"C05"}) \cup
                  \* destroyed while a consumer is cloning / viewing it: C04 (unstable value) and C05 (dropped
                  \* while still reachable) alike
                  (IF \E b \in led.busy : b[2] = E.s /\ E.s # 0 THEN {"C04C05"} ELSE {}))
          /\ led' = [led EXCEPT !.live = @ \ {E.s}]
          /\ UNCHANGED <<q, pend>>
          /\ l' = l + 1

(* ------------------------------ stuck / end ------------------------------ *)
(* One blocked or spinning thread: acceptable only if the model offers it nothing *)
StuckBad(x) ==
  CASE x.op = "none" -> {}
    \* blocked although the end of the stream is due: this is both "never reports the end" (C07) and
    \* "never wakes" (C08 / C14), hence the joint ids
    [] x.op = "brecv" -> IF ~IsRecv(q, x.h) THEN {"C08"}
                         ELSE IF RecvRes(q, x.h) = "Empty" THEN {}
                         ELSE IF RecvRes(q, x.h) = "Disc" THEN {"C07C08"} ELSE {"C08"}
    [] x.op = "taskwait" ->
         IF x.api = "send" THEN (IF IsSend(q, x.h) /\ SendRes(q) = "Full" THEN {} ELSE {"C14"})
         ELSE (IF ~IsRecv(q, x.h) THEN {"C14"}
               ELSE IF RecvRes(q, x.h) = "Empty" THEN {}
               ELSE IF RecvRes(q, x.h) = "Disc" THEN {"C07C14"} ELSE {"C14"})
    [] x.op = "retry_send" -> IF IsSend(q, x.h) /\ SendRes(q) = "Full" THEN {} ELSE {"C06"}
    [] x.op = "retry_recv" -> IF IsRecv(q, x.h) /\ RecvRes(q, x.h) = "Empty" THEN {} ELSE {"C06"}
    [] x.api \in {"poll", "start_send", "poll_complete"} -> {"C15"}
    [] x.op \in {"send", "recv"} -> {"C18"}
    [] OTHER -> {"C09"}

Stuck == /\ Is("stuck")
         /\ Flag(UNION {StuckBad(E.ts[i]) : i \in 1..Len(E.ts)})
         /\ pend' = [t \in Threads |-> NoCall]
         /\ UNCHANGED <<q, led>>
         /\ l' = l + 1

Quiesce == /\ Is("quiesce")
           /\ \A t \in Threads : ~Pending(t)
           /\ UNCHANGED <<q, pend, led, viol>>
           /\ l' = l + 1

(* memory sampled during handle churn (fixed set of operating handles): no growth beyond a plateau *)
Ckpt == /\ Is("ckpt")
        /\ LET first == led.ck = <<>> IN
           /\ Flag(IF first \/ (E.blocks <= led.ck[1] + 64 /\ E.heap <= led.ck[2] + 65536) THEN {} ELSE {"C17"})
           /\ led' = [led EXCEPT !.ck = IF first THEN <<E.blocks, E.heap>> ELSE @]
        /\ UNCHANGED <<q, pend>>
        /\ l' = l + 1

HeapDelta == IF "heap_delta" \in DOMAIN E THEN E.heap_delta ELSE 0
\* bytes still alive that were allocated inside calls of the crate (scheduled runs; exact, the harness's own
\* allocations are not counted)
CrateHeap == IF "crate_heap" \in DOMAIN E THEN E.crate_heap ELSE 0

End == /\ Is("end")
       /\ Flag((IF E.outcome = "Done" /\ led.live # {} THEN {"C05"} ELSE {}) \cup
               (IF E.outcome = "Done" /\ (E.live # 0 \/ HeapDelta > 100 \/ CrateHeap # 0) THEN {"C17"} ELSE {}))
       /\ UNCHANGED <<q, pend, led>>
       /\ l' = l + 1

\* earlyfree: a block handed to the memory manager was released without an epoch change in between
\* (conformance with MQMem: release only from the batch handed over at an epoch change)
\* tokenless: a handle read the published stream list after it had given its token back (MQMem: holds[h] # {} only
\* for handles in DOMAIN tok)
\* heldfree: a stream list was released while a thread was between loading it and the end of that operation
\* (MQMemImpl: NoUseAfterFree on the ghost holds)
MemEv == /\ (Is("uaf") \/ Is("badfree") \/ Is("doublefree") \/ Is("earlyfree") \/ Is("tokenless") \/ Is("heldfree")
             \/ Is("lateannounce"))
         /\ Flag({"C16"})
         /\ UNCHANGED <<q, pend, led>>
         /\ l' = l + 1

PanicEv == /\ Is("panic")
           /\ Flag({"C09"})
           /\ UNCHANGED <<q, pend, led>>
           /\ l' = l + 1

(* a try operation run alone (all other threads frozen) must finish within its bound *)
SoloEv == /\ Is("solo")
          /\ Flag(IF E.api \in {"try_send", "try_recv", "try_recv_view"} /\ ~(E.done /\ E.nops <= E.bound)
                  THEN {"C18"} ELSE {})
          /\ UNCHANGED <<q, pend, led>>
          /\ l' = l + 1

Skip == /\ (Is("notify") \/ Is("note"))
        /\ UNCHANGED <<q, pend, led, viol>>
        /\ l' = l + 1

Next == \/ Reset \/ Call \/ Ret \/ Born \/ ObsBegin \/ ObsEnd \/ DropEv
        \/ Stuck \/ Quiesce \/ End \/ Ckpt \/ MemEv \/ PanicEv \/ SoloEv \/ Skip

Spec == Init /\ [][Next]_vars

(* registers: 1 = furthest line reached, 2 = viol sets of complete behaviours *)
Reg == /\ (IF l > TLCGet(1) THEN TLCSet(1, l) ELSE TRUE)
       /\ (IF l = NRec + 1 THEN TLCSet(2, TLCGet(2) \cup {viol}) ELSE TRUE)
       /\ (Strict \/ Cardinality(viol) <= 2)

Accepted ==
  LET far == TLCGet(1) IN
  /\ PrintT(<<"RESULT", far - 1, NRec, TLCGet(2)>>)
  /\ (far <= NRec => PrintT(<<"UNMATCHED", far, Rec[far]>>))
  /\ (Strict => far = NRec + 1)
=============================================================================
