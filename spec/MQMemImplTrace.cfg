SPECIFICATION Spec
CONSTANT TH = 20
CONSTANT FirstTok = 1
CONSTANT CheckInner = TRUE
CONSTANT Threads <- TraceThreads
CONSTRAINT Reg
POSTCONDITION Accepted
CHECK_DEADLOCK FALSE
