SPECIFICATION Spec
INVARIANT Emitted
CHECK_DEADLOCK FALSE
