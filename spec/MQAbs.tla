------------------------------- MODULE MQAbs -------------------------------
(***************************************************************************)
(* Reference model of multiqueue2 as a user sees it (property C09): one    *)
(* append-only log, one cursor per stream, a window of N, a set of live    *)
(* sender handles, a map from live receiver handles to streams.            *)
(*                                                                         *)
(* Everything here is a pure operator over an abstract state record, so    *)
(* that the same definitions serve (1) the sequential generator MQAbsGen,  *)
(* (2) the trace specification MQAbsTrace that judges recorded executions  *)
(* of the real crate, and (3) the ghost state of the fine-grained model.   *)
(***************************************************************************)
EXTENDS Naturals, Integers, Sequences, FiniteSets, TLC

Max2(a, b) == IF a > b THEN a ELSE b

RECURSIVE Pow2AtLeast(_, _)
Pow2AtLeast(p, c) == IF p >= c THEN p ELSE Pow2AtLeast(2 * p, c)

(* get_valid_wrap: requested capacity rounded up to a power of two, minimum 1 *)
NormCap(c) == Pow2AtLeast(1, Max2(c, 1))

SetMin(S) == CHOOSE x \in S : \A y \in S : x <= y
SetMax(S) == CHOOSE x \in S : \A y \in S : x >= y

(* abstract state *)
AInit(cap) ==
  [ log   |-> <<>>,               \* accepted values, in acceptance order
    cur   |-> (1 :> 0),           \* stream id -> number of values consumed (absolute log index)
    hs    |-> ("rx" :> 1),        \* live receiver handle -> stream id
    snd   |-> {"tx"},             \* live sender handles
    noR   |-> FALSE,              \* every receiver is gone (sticky)
    N     |-> NormCap(cap),
    nexts |-> 2 ]

Streams(q) == DOMAIN q.cur
HandlesOn(q, s) == {h \in DOMAIN q.hs : q.hs[h] = s}
StreamOf(q, h) == q.hs[h]
IsRecv(q, h) == h \in DOMAIN q.hs
IsSend(q, h) == h \in q.snd

MinCur(q) == IF Streams(q) = {} THEN Len(q.log) ELSE SetMin({q.cur[s] : s \in Streams(q)})
Outstanding(q) == Len(q.log) - MinCur(q)

(* ---- send ---- *)
SendRes(q) == IF q.noR THEN "Disc" ELSE IF Outstanding(q) >= q.N THEN "Full" ELSE "Ok"
DoSend(q, v) == [q EXCEPT !.log = Append(@, v)]

(* ---- receive (try_recv, try_recv_view, Stream::poll) ---- *)
Avail(q, h) == Len(q.log) - q.cur[q.hs[h]]
RecvRes(q, h) == IF q.cur[q.hs[h]] < Len(q.log) THEN "Val"
                 ELSE IF q.snd = {} THEN "Disc" ELSE "Empty"
RecvVal(q, h) == q.log[q.cur[q.hs[h]] + 1]
DoRecv(q, h) == [q EXCEPT !.cur[q.hs[h]] = @ + 1]

(* ---- streams and handles ---- *)
DoAddStream(q, h, new) ==
  [q EXCEPT !.cur = @ @@ (q.nexts :> q.cur[q.hs[h]]),
            !.hs = @ @@ (new :> q.nexts),
            !.nexts = @ + 1]

DoCloneRecv(q, h, new) == [q EXCEPT !.hs = @ @@ (new :> q.hs[h])]
DoCloneSend(q, h, new) == [q EXCEPT !.snd = @ \cup {new}]

IsLast(q, h) == Cardinality(HandlesOn(q, q.hs[h])) = 1

Restrict(f, S) == [x \in S |-> f[x]]

(* first half of removing a receiver handle: the handle goes away and, when it was the last one of
   its stream, the stream stops limiting senders *)
DoDropRecvStream(q, h) ==
  LET s    == q.hs[h]
      hs2  == Restrict(q.hs, DOMAIN q.hs \ {h})
      gone == \A g \in DOMAIN hs2 : hs2[g] # s
      cur2 == IF gone THEN Restrict(q.cur, DOMAIN q.cur \ {s}) ELSE q.cur
  IN [q EXCEPT !.hs = hs2, !.cur = cur2]
(* second half: with no stream left, senders are told that nobody listens (sticky) *)
MarkNoReaders(q) == [q EXCEPT !.noR = (@ \/ DOMAIN q.cur = {})]
DoDropRecv(q, h) == MarkNoReaders(DoDropRecvStream(q, h))

DoDropSend(q, h) == [q EXCEPT !.snd = @ \ {h}]

(* futures single-consumer receivers: into_multi and transform_operation add a stream at the
   same position and then drop the old handle, so the handle moves to a fresh stream *)
DoRestream(q, h) ==
  LET s    == q.hs[h]
      ns   == q.nexts
      hs2  == [q.hs EXCEPT ![h] = ns]
      gone == \A g \in DOMAIN hs2 : hs2[g] # s
      cur1 == q.cur @@ (ns :> q.cur[s])
      cur2 == IF gone THEN Restrict(cur1, DOMAIN cur1 \ {s}) ELSE cur1
  IN [q EXCEPT !.hs = hs2, !.cur = cur2, !.nexts = @ + 1]

(***************************************************************************)
(* One public call, applied atomically.  A call is a record                *)
(*   [op, h, v, new, hk]   (hk = kind of the handle, e.g. "BFU")           *)
(* Result: <<new state, result string, result value>>                      *)
(***************************************************************************)
FutUni(hk) == hk \in {"BFU", "MFU"}
UnitUnsub(hk) == hk \in {"BS", "BFS", "MS", "MFS", "BU"}

Apply(q, c) ==
  CASE c.op = "send" ->
         LET r == SendRes(q) IN
         IF r = "Ok" THEN <<DoSend(q, c.v), "Ok", -1>> ELSE <<q, r, c.v>>
    [] c.op \in {"recv", "brecv"} ->
         LET r == RecvRes(q, c.h) IN
         IF r = "Val" THEN <<DoRecv(q, c.h), "Val", RecvVal(q, c.h)>> ELSE <<q, r, -1>>
    [] c.op = "add_stream" -> <<DoAddStream(q, c.h, c.new), "Ok", -1>>
    [] c.op = "clone" ->
         IF IsSend(q, c.h) THEN <<DoCloneSend(q, c.h, c.new), "Ok", -1>>
                           ELSE <<DoCloneRecv(q, c.h, c.new), "Ok", -1>>
    [] c.op = "drop" ->
         IF IsSend(q, c.h) THEN <<DoDropSend(q, c.h), "Ok", -1>>
                           ELSE <<DoDropRecv(q, c.h), "Ok", -1>>
    [] c.op = "unsub" ->
         IF IsSend(q, c.h) THEN <<DoDropSend(q, c.h), "Ok", -1>>
         ELSE <<DoDropRecv(q, c.h),
                IF UnitUnsub(c.hk) THEN "Ok" ELSE IF IsLast(q, c.h) THEN "True" ELSE "False", -1>>
    [] c.op = "into_single" -> <<q, IF IsLast(q, c.h) THEN "Ok" ELSE "Err", -1>>
    [] c.op = "into_multi" ->
         IF FutUni(c.hk) THEN <<DoRestream(q, c.h), "Ok", -1>> ELSE <<q, "Ok", -1>>
    [] c.op = "transform" -> <<DoRestream(q, c.h), "Ok", -1>>
    [] c.op = "pc" -> <<q, "Ok", -1>>
    [] OTHER -> <<q, "Unsupported", -1>>

(* a blocking receive can only take effect when it has something to return *)
CanApply(q, c) ==
  /\ (c.op \in {"recv", "brecv", "add_stream", "into_single", "into_multi", "transform"} => IsRecv(q, c.h))
  /\ (c.op \in {"send"} => IsSend(q, c.h))
  /\ (c.op \in {"clone", "drop", "unsub"} => (IsSend(q, c.h) \/ IsRecv(q, c.h)))
  /\ (c.op = "brecv" => RecvRes(q, c.h) # "Empty")
=============================================================================
