------------------------------ MODULE MQAbsGen ------------------------------
(***************************************************************************)
(* Generator of single-threaded API histories from the reference model     *)
(* (C09, C13, C15 sequential, C05/C17 teardown orders).  A behaviour is a  *)
(* call sequence over one handle family; every complete behaviour (length  *)
(* Depth, or no live handle left) is printed as one JSON line and executed *)
(* on the real crate; the recorded trace is then judged by MQAbsTrace.     *)
(* Run exhaustively (all sequences up to Depth) or with -simulate for long *)
(* random walks.                                                           *)
(***************************************************************************)
EXTENDS MQAbs, Json

CONSTANTS Family,      \* "bcast" | "mpmc"
          Fut,         \* futures handles?
          Cap,         \* requested capacity
          Depth,
          MaxSenders, MaxStreams, MaxHPS,
          Ops          \* subset of the alphabet allowed in this run

VARIABLES q, kind, hist, nv, nh

vars == <<q, kind, hist, nv, nh>>

SK == IF Family = "bcast" THEN (IF Fut THEN "BFS" ELSE "BS") ELSE (IF Fut THEN "MFS" ELSE "MS")
RK == IF Family = "bcast" THEN (IF Fut THEN "BFR" ELSE "BR") ELSE (IF Fut THEN "MFR" ELSE "MR")
UK == IF Family = "bcast" THEN (IF Fut THEN "BFU" ELSE "BU") ELSE (IF Fut THEN "MFU" ELSE "MU")

Init == /\ q = AInit(Cap)
        /\ kind = ("tx" :> SK) @@ ("rx" :> RK)
        /\ hist = <<>>
        /\ nv = 1
        /\ nh = 1

Live == DOMAIN kind
Senders == {h \in Live : IsSend(q, h)}
Recvs == {h \in Live : IsRecv(q, h)}
NewName == "h" \o ToString(nh)

Emit(op, h, v, new) == hist' = Append(hist, [op |-> op, h |-> h, v |-> v, new |-> new])
Allowed(op) == op \in Ops /\ Len(hist) < Depth

Call(op, h, v, new) == [op |-> op, h |-> h, v |-> v, new |-> new, hk |-> kind[h]]

Send(api) == /\ Allowed(api)
             /\ (api \in {"start_send", "poll_complete"} => Fut)
             /\ \E h \in Senders :
                  IF api = "poll_complete"
                  THEN Emit(api, h, 0, "") /\ UNCHANGED <<q, kind, nv, nh>>
                  ELSE /\ q' = Apply(q, Call("send", h, nv, ""))[1]
                       /\ Emit(api, h, nv, "")
                       /\ nv' = nv + 1
                       /\ UNCHANGED <<kind, nh>>

IsUni(h) == kind[h] \in {"BU", "MU", "BFU", "MFU"}

Recv(api) == /\ Allowed(api)
             /\ (api = "poll" => Fut)
             /\ \E h \in Recvs :
                  /\ (api \in {"view", "bview"} => IsUni(h))
                  /\ (api \in {"brecv", "bview"} => RecvRes(q, h) # "Empty")
                  /\ q' = Apply(q, Call("recv", h, 0, ""))[1]
                  /\ Emit(api, h, 0, "")
                  /\ UNCHANGED <<kind, nv, nh>>

(* try_iter: receive until the iterator ends *)
RECURSIVE DrainAll(_, _)
DrainAll(qq, h) == IF RecvRes(qq, h) = "Val" THEN DrainAll(DoRecv(qq, h), h) ELSE qq

Drain == /\ Allowed("drain")
         /\ \E h \in Recvs :
              /\ kind[h] \in {"BR", "MR", "BU", "MU"}
              /\ q' = DrainAll(q, h)
              /\ hist' = Append(hist, [op |-> "drain", h |-> h, v |-> 0, new |-> "", api |-> "try_iter"])
              /\ UNCHANGED <<kind, nv, nh>>

AddStream == /\ Allowed("add_stream")
             /\ Cardinality(Streams(q)) < MaxStreams
             /\ \E h \in Recvs :
                  /\ kind[h] \in {"BR", "BFR", "BFU"}
                  /\ q' = DoAddStream(q, h, NewName)
                  /\ kind' = kind @@ (NewName :> kind[h])
                  /\ Emit("add_stream", h, 0, NewName)
                  /\ nh' = nh + 1
                  /\ UNCHANGED nv

Clone == /\ Allowed("clone")
         /\ \E h \in Live :
              /\ kind[h] \in {"BS", "BR", "BFS", "BFR", "MS", "MR", "MFS", "MFR"}
              /\ IF IsSend(q, h) THEN Cardinality(Senders) < MaxSenders
                 ELSE Cardinality(HandlesOn(q, q.hs[h])) < MaxHPS
              /\ q' = Apply(q, Call("clone", h, 0, NewName))[1]
              /\ kind' = kind @@ (NewName :> kind[h])
              /\ Emit("clone", h, 0, NewName)
              /\ nh' = nh + 1
              /\ UNCHANGED nv

DropLike(op) == /\ Allowed(op)
                /\ \E h \in Live :
                     /\ q' = Apply(q, Call(op, h, 0, ""))[1]
                     /\ kind' = Restrict(kind, Live \ {h})
                     /\ Emit(op, h, 0, "")
                     /\ UNCHANGED <<nv, nh>>

IntoSingle == /\ Allowed("into_single")
              /\ \E h \in Recvs :
                   /\ kind[h] = RK
                   /\ kind' = IF IsLast(q, h) THEN [kind EXCEPT ![h] = UK] ELSE kind
                   /\ Emit("into_single", h, 0, "")
                   /\ UNCHANGED <<q, nv, nh>>

IntoMulti == /\ Allowed("into_multi")
             /\ \E h \in Recvs :
                  /\ kind[h] = UK
                  /\ q' = Apply(q, Call("into_multi", h, 0, ""))[1]
                  /\ kind' = [kind EXCEPT ![h] = RK]
                  /\ Emit("into_multi", h, 0, "")
                  /\ UNCHANGED <<nv, nh>>

Transform == /\ Allowed("transform")
             /\ Fut
             /\ \E h \in Recvs :
                  /\ kind[h] = UK
                  /\ q' = DoRestream(q, h)
                  /\ Emit("transform", h, 0, "")
                  /\ UNCHANGED <<kind, nv, nh>>

(* owning blocking iterator: only when it is certain to end *)
Iter == /\ Allowed("iter")
        /\ q.snd = {}
        /\ \E h \in Recvs :
             /\ kind[h] \in {"BR", "MR", "BU", "MU"}
             /\ q' = DoDropRecv(DrainAll(q, h), h)
             /\ kind' = Restrict(kind, Live \ {h})
             /\ Emit("iter", h, 0, "")
             /\ UNCHANGED <<nv, nh>>

Next == \/ Send("send") \/ Send("start_send") \/ Send("poll_complete")
        \/ Recv("recv") \/ Recv("view") \/ Recv("poll") \/ Recv("brecv") \/ Recv("bview")
        \/ Drain \/ AddStream \/ Clone \/ DropLike("drop") \/ DropLike("unsub")
        \/ IntoSingle \/ IntoMulti \/ Transform \/ Iter

Spec == Init /\ [][Next]_vars

Complete == Len(hist) = Depth \/ Live = {}

(* "invariant" used only for its side effect: one line per complete behaviour *)
Emitted == Complete => PrintT(<<"SEQ", ToJson(hist)>>)
=============================================================================
