------------------------------- MODULE MQFut -------------------------------
(***************************************************************************)
(* The futures layer of multiqueue2 (Sink::start_send / send_or_park,      *)
(* Stream::poll / fut_wait / park, FutWait::notify / notify_all and who    *)
(* calls them), over an abstract ring: try_send and try_recv are atomic,   *)
(* except that a consumer of a shared stream pins its slot for one step    *)
(* (the transient Full of property C06).  Each critical section on one of  *)
(* the two parked lists is one action.  Tasks are re-polled by a           *)
(* nondeterministic executor at any time after their notification.         *)
(*                                                                         *)
(* Property C14: in every state in which no task can take a step, no task  *)
(* is parked un-notified while the queue could make progress for it.       *)
(*                                                                         *)
(* Switches name the notifications whose absence was found to lose wake-ups*)
(* (each corresponds to a repaired defect; TLC finds the counterexample    *)
(* when one is switched off).                                              *)
(***************************************************************************)
EXTENDS Naturals, Integers, Sequences, FiniteSets, TLC

CONSTANTS N,            \* ring size
          Sinks,        \* sink task ids
          Sends,        \* number of values each sink task sends before dropping its sender
          StreamOf,     \* [stream task id -> stream id]
          DirectDrain,  \* stream tasks that drain through the direct try_recv method instead of poll
          NotifyOnEmptyPoll,   \* repair: an empty poll of a shared stream wakes senders
          NotifyOnDirectRecv   \* repair: direct try_recv/recv wake senders

VARIABLES head,        \* number of accepted values
          cur,         \* [stream -> number consumed]
          senders,     \* live sender handles
          pins,        \* consumers of shared streams between pin and unpin: set of <<task, slot>>
          consParked, prodParked, notified,
          pc,          \* [task -> label]
          sent         \* [sink -> number of values accepted]

vars == <<head, cur, senders, pins, consParked, prodParked, notified, pc, sent>>

STasks == DOMAIN StreamOf
Tasks == Sinks \cup STasks
StreamIds == {StreamOf[t] : t \in STasks}
Shared(s) == Cardinality({t \in STasks : StreamOf[t] = s}) > 1
MinCur == IF StreamIds = {} THEN head ELSE
          LET S0 == {cur[s] : s \in StreamIds} IN CHOOSE x \in S0 : \A y \in S0 : x <= y
Slot(i) == i % N

Init == /\ head = 0 /\ cur = [s \in StreamIds |-> 0] /\ senders = Cardinality(Sinks)
        /\ pins = {} /\ consParked = {} /\ prodParked = {} /\ notified = {}
        /\ pc = [t \in Tasks |-> IF t \in Sinks THEN "s_section" ELSE "r_try"]
        /\ sent = [t \in Sinks |-> 0]

Go(t, l) == pc' = [pc EXCEPT ![t] = l]

(* ---------------- sink task: send_or_park with zero spins = one section under the producer list lock *)
Pinned(i) == \E p \in pins : p[2] = Slot(i)
SinkSection(t) ==
  /\ pc[t] = "s_section"
  /\ IF head - MinCur >= N \/ Pinned(head)
     THEN \* Full (possibly transient, because of a pin): park under the lock
          /\ prodParked' = prodParked \cup {t} /\ Go(t, "parked")
          /\ UNCHANGED <<head, sent>>
     ELSE /\ head' = head + 1 /\ sent' = [sent EXCEPT ![t] = @ + 1] /\ Go(t, "s_notify")
          /\ UNCHANGED prodParked
  /\ UNCHANGED <<cur, senders, pins, consParked, notified>>

\* after an accepted send: FutWait::notify on the consumer list
SinkNotify(t) ==
  /\ pc[t] = "s_notify"
  /\ notified' = notified \cup consParked /\ consParked' = {}
  /\ Go(t, IF sent[t] = Sends THEN "s_drop" ELSE "s_section")
  /\ UNCHANGED <<head, cur, senders, pins, prodParked, sent>>

\* Drop for InnerSend: writers - 1, then notify the consumer list
SinkDrop(t) ==
  /\ pc[t] = "s_drop"
  /\ senders' = senders - 1 /\ Go(t, "s_dropnotify")
  /\ UNCHANGED <<head, cur, pins, consParked, prodParked, notified, sent>>
SinkDropNotify(t) ==
  /\ pc[t] = "s_dropnotify"
  /\ notified' = notified \cup consParked /\ consParked' = {}
  /\ Go(t, "done")
  /\ UNCHANGED <<head, cur, senders, pins, prodParked, sent>>

(* ---------------- stream task: poll *)
S(t) == StreamOf[t]
Avail(t) == cur[S(t)] < head

\* exclusive stream: try_recv is one step; shared stream: pin first
StreamTry(t) ==
  /\ pc[t] = "r_try"
  /\ IF Avail(t)
     THEN IF Shared(S(t))
          THEN /\ pins' = pins \cup {<<t, Slot(cur[S(t)])>>} /\ Go(t, "r_pinned") /\ UNCHANGED cur
          ELSE /\ cur' = [cur EXCEPT ![S(t)] = @ + 1] /\ Go(t, "r_gotnotify") /\ UNCHANGED pins
     ELSE /\ Go(t, IF senders = 0 THEN "done" ELSE "r_empty") /\ UNCHANGED <<cur, pins>>
  /\ UNCHANGED <<head, senders, consParked, prodParked, notified, sent>>

\* after the pin: the cursor is re-checked; either the value is taken or the attempt fails (a sibling took it)
StreamPinned(t) ==
  /\ pc[t] = "r_pinned"
  /\ LET p == CHOOSE x \in pins : x[1] = t IN
     /\ pins' = pins \ {p}
     /\ IF Slot(cur[S(t)]) = p[2] /\ Avail(t)
        THEN cur' = [cur EXCEPT ![S(t)] = @ + 1] /\ Go(t, "r_gotnotify")
        ELSE UNCHANGED cur /\ Go(t, "r_try")
  /\ UNCHANGED <<head, senders, consParked, prodParked, notified, sent>>

NotifyProducers == /\ notified' = notified \cup prodParked /\ prodParked' = {}

\* a value was taken: prod_wait.notify_all()
StreamGotNotify(t) ==
  /\ pc[t] = "r_gotnotify"
  /\ IF t \in DirectDrain /\ ~NotifyOnDirectRecv THEN UNCHANGED <<notified, prodParked>> ELSE NotifyProducers
  /\ Go(t, "r_try")
  /\ UNCHANGED <<head, cur, senders, pins, consParked, sent>>

\* nothing there: (repair) wake senders, then park under the consumer list lock after re-checking
StreamEmpty(t) ==
  /\ pc[t] = "r_empty"
  /\ IF (t \in DirectDrain /\ NotifyOnDirectRecv) \/ (t \notin DirectDrain /\ NotifyOnEmptyPoll)
     THEN NotifyProducers ELSE UNCHANGED <<notified, prodParked>>
  /\ Go(t, IF t \in DirectDrain THEN "r_try" ELSE "r_park")
  /\ UNCHANGED <<head, cur, senders, pins, consParked, sent>>

StreamPark(t) ==
  /\ pc[t] = "r_park"
  /\ IF Avail(t) \/ senders = 0
     THEN Go(t, "r_try") /\ UNCHANGED consParked
     ELSE consParked' = consParked \cup {t} /\ Go(t, "parked")
  /\ UNCHANGED <<head, cur, senders, pins, prodParked, notified, sent>>

(* ---------------- executor: a notified parked task is polled again *)
Wake(t) ==
  /\ pc[t] = "parked" /\ t \in notified
  /\ notified' = notified \ {t}
  /\ Go(t, IF t \in Sinks THEN "s_section" ELSE "r_try")
  /\ UNCHANGED <<head, cur, senders, pins, consParked, prodParked, sent>>

Step(t) == \/ SinkSection(t) \/ SinkNotify(t) \/ SinkDrop(t) \/ SinkDropNotify(t)
           \/ StreamTry(t) \/ StreamPinned(t) \/ StreamGotNotify(t) \/ StreamEmpty(t) \/ StreamPark(t)
           \/ Wake(t)
Next == \E t \in Tasks : Step(t)
Spec == Init /\ [][Next]_vars

(* a direct-drain consumer spins on try_recv: bound the exploration by not counting that spin as progress *)
Spinning(t) == t \in DirectDrain /\ pc[t] \in {"r_try", "r_empty"} /\ ~Avail(t) /\ senders > 0

Quiescent == \A t \in Tasks : pc[t] = "done" \/ (pc[t] = "parked" /\ t \notin notified) \/ Spinning(t)
CanProgress(t) == IF t \in Sinks THEN head - MinCur < N /\ ~Pinned(head)
                  ELSE Avail(t) \/ senders = 0
(* C14 *)
NoLostWakeup == ~(Quiescent /\ \E t \in Tasks : pc[t] = "parked" /\ t \notin notified /\ CanProgress(t))
(* everything sent is eventually receivable: at the end all sinks are done *)
TypeOK == head <= Cardinality(Sinks) * Sends
=============================================================================
