------------------------------ MODULE Handles ------------------------------
(***************************************************************************)
(* C19 as a table.  A TLA+ state machine has nothing to say about Rust's   *)
(* trait solver; what the specification contributes is the rule itself as  *)
(* a function over (handle type, payload class, closure class), enumerated *)
(* by TLC.  A generator turns every row into a compile probe and the check  *)
(* compares the compiler's verdict with the row.                           *)
(***************************************************************************)
EXTENDS TLC, Json, Sequences, FiniteSets

Types == {"BroadcastSender", "BroadcastReceiver", "BroadcastUniReceiver",
          "BroadcastFutSender", "BroadcastFutReceiver", "BroadcastFutUniReceiver",
          "MPMCSender", "MPMCReceiver", "MPMCUniReceiver",
          "MPMCFutSender", "MPMCFutReceiver", "MPMCFutUniReceiver"}
Payloads == {"SendSync", "SendOnly", "Neither"}      \* u64, Cell<u64>, Rc<u64>
Closures == {"SendFn", "NonSendFn"}                  \* fn pointer, Box<dyn FnMut> (not Send)

IsBroadcast(t) == t \in {"BroadcastSender", "BroadcastReceiver", "BroadcastUniReceiver",
                         "BroadcastFutSender", "BroadcastFutReceiver", "BroadcastFutUniReceiver"}
IsFutUni(t) == t \in {"BroadcastFutUniReceiver", "MPMCFutUniReceiver"}

(* a handle is Send exactly when the payload is Send, for broadcast handles also Sync (consumers on
   different threads share each value by reference), and for futures single-consumer receivers the
   stored closure is Send too; no handle is ever Sync *)
ExpectSend(t, p, c) == /\ p # "Neither"
                       /\ (IsBroadcast(t) => p = "SendSync")
                       /\ (IsFutUni(t) => c = "SendFn")
ExpectSync(t, p, c) == FALSE

Rows == {<<t, p, c>> \in Types \X Payloads \X (Closures \cup {"NoClosure"}) :
           IF IsFutUni(t) THEN c \in Closures ELSE c = "NoClosure"}

VARIABLE row
Init == row \in Rows
Next == UNCHANGED row
Spec == Init /\ [][Next]_row

Emitted == PrintT(<<"ROW", ToJson([type |-> row[1], payload |-> row[2], closure |-> row[3],
                                   send |-> ExpectSend(row[1], row[2], row[3]),
                                   sync |-> ExpectSync(row[1], row[2], row[3])])>>)
=============================================================================
