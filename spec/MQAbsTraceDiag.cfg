SPECIFICATION Spec
CONSTANT Strict = FALSE
CONSTRAINT Reg
POSTCONDITION Accepted
CHECK_DEADLOCK FALSE
