SPECIFICATION Spec
CONSTANT Ignore = {}
CONSTANT Strict = FALSE
CONSTRAINT Reg
POSTCONDITION Accepted
CHECK_DEADLOCK FALSE
