"""Shared machinery of the /verif checks: building the harness, running TLC, generating
behaviours from the specifications, running the real crate under the scheduler, validating the
recorded traces with TLC, attribution, known findings, evidence."""
import concurrent.futures as cf
import hashlib
import json
import os
import re
import shutil
import subprocess
import sys
import time

VERIF = os.path.dirname(os.path.dirname(os.path.abspath(__file__)))
SPEC = os.path.join(VERIF, "spec")
# the registered checks always use /verif and /repo; the overrides exist for the seeded-change self tests,
# which run the same machinery against a scratch copy of the repository
HARNESS = os.environ.get("VERIF_HARNESS_DIR", os.path.join(VERIF, "harness"))
WORK = os.environ.get("VERIF_WORK_DIR", os.path.join(VERIF, "work"))
REPLAYS = os.environ.get("VERIF_REPLAYS_DIR", os.path.join(VERIF, "replays"))
EVID = os.environ.get("VERIF_EVID_DIR", os.path.join(VERIF, "evidence"))
NCPU = os.cpu_count() or 4
JAVA_TRACE_OPTS = "-Xss1g -Dtlc2.tool.queue.IStateQueue=StateDeque"


class ToolError(Exception):
    pass


def log(*a):
    print(*a, flush=True)


def seed():
    try:
        return int(os.environ.get("VERIF_SEED", "1"))
    except ValueError:
        return 1


def workdir(prop):
    d = os.path.join(WORK, prop)
    shutil.rmtree(d, ignore_errors=True)
    os.makedirs(d, exist_ok=True)
    return d


# --------------------------------------------------------------------------- harness
_built = None


def build_harness():
    """Builds mqh against /repo's current working tree with the hooks enabled."""
    global _built
    if _built:
        return _built
    env = dict(os.environ, CARGO_NET_OFFLINE="true")
    tgt = os.environ.get("VERIF_HARNESS_TARGET")
    if tgt:
        env["CARGO_TARGET_DIR"] = tgt
    t0 = time.time()
    p = subprocess.run(["cargo", "build", "--release", "--offline"], cwd=HARNESS, env=env,
                       stdout=subprocess.PIPE, stderr=subprocess.STDOUT, text=True)
    if p.returncode != 0:
        sys.stderr.write(p.stdout[-4000:])
        raise ToolError("harness build failed (does /repo still compile with --cfg multiqueue2_verif?)")
    _built = os.path.join(tgt or os.path.join(HARNESS, "target"), "release", "mqh")
    log("  [build] harness built in %.1fs" % (time.time() - t0))
    return _built


def run_harness(args, timeout=900):
    """One mqh process; returns its stats dict. A crash of the process is data."""
    exe = build_harness()
    try:
        p = subprocess.run([exe] + args, stdout=subprocess.PIPE, stderr=subprocess.PIPE, text=True, timeout=timeout)
    except subprocess.TimeoutExpired:
        raise ToolError("harness process did not finish within %d s: %s" % (timeout, " ".join(args[:8])))
    if p.returncode == -9:
        # SIGKILL comes from outside the process (out-of-memory killer): nothing the code under test did
        raise ToolError("harness process was killed (SIGKILL, probably out of memory): %s" % " ".join(args[:8]))
    if p.returncode != 0:
        return {"crash": "exit %d" % p.returncode, "stderr": p.stderr[-2000:], "args": args}
    try:
        return json.loads(p.stdout.strip().splitlines()[-1])
    except Exception:
        return {"crash": "no stats", "stdout": p.stdout[-2000:], "args": args}


def explore(scn_file, outdir, tag, mode, runs=1000, bound=2, shards=None, extra=None, timeout=900):
    """Runs the scenarios of scn_file under a schedule source, sharded over processes.
    Returns (list of trace files, list of sched files, merged stats)."""
    shards = shards or min(NCPU, 16)
    build_harness()
    jobs = []
    if mode == "victim":
        # the bounded tree restricted to preemptions of one thread (each thread in turn): bound 3 stays enumerable
        mode = "dfs"
        extra = list(extra or []) + ["--victim", "each"]
    for k in range(shards):
        out = os.path.join(outdir, "%s.%d.api.ndjson" % (tag, k))
        sch = os.path.join(outdir, "%s.%d.sched.ndjson" % (tag, k))
        a = ["explore", "--scn", scn_file, "--mode", mode, "--runs", str(runs), "--bound", str(bound),
             "--seed", str(seed()), "--part", str(k), "--of", str(shards), "--out", out, "--sched-out", sch,
             "--time-budget", str(TIME_BUDGET)]
        if mode == "dfs" and not (extra and "--prefix-file" in extra):
            # the bounded tree is enumerated from a worklist in random order: under a run cap the preemption
            # points tried are spread over the whole run instead of clustering at its end
            a += ["--order", "random"]
        if extra:
            a += extra
        jobs.append((a, out, sch))
    stats = []
    with cf.ThreadPoolExecutor(max_workers=shards) as ex:
        futs = [ex.submit(run_harness, j[0], timeout) for j in jobs]
        for f in futs:
            stats.append(f.result())
    return [j[1] for j in jobs], [j[2] for j in jobs], merge_stats(stats)


def merge_stats(stats):
    m = {"runs": 0, "distinct_traces": 0, "nontrivial": 0, "events": 0, "outcomes": {}, "exhaustive": True,
         "crashes": [], "max_steps": 0, "extra": [], "out_of_time": 0}
    for s in stats:
        if "crash" in s:
            m["crashes"].append(s)
            continue
        m["runs"] += s["runs"]
        m["distinct_traces"] += s["distinct_traces"]
        m["nontrivial"] += s["nontrivial"]
        m["events"] += s["events"]
        m["exhaustive"] = m["exhaustive"] and s["exhaustive"]
        m["out_of_time"] += 1 if s.get("out_of_time") else 0
        m["max_steps"] = max(m["max_steps"], s.get("max_steps", 0))
        if s.get("extra"):
            m["extra"].append(s["extra"])
        for k, v in s["outcomes"].items():
            m["outcomes"][k] = m["outcomes"].get(k, 0) + v
    return m


# --------------------------------------------------------------------------- TLC
def tlc(module, cfg, metadir, env=None, workers=1, timeout=600, java_opts=None, extra=None, cwd=SPEC,
        xmx="4g"):
    """Runs TLC; returns dict(out, rc, generated, distinct, depth, error)."""
    e = dict(os.environ)
    if env:
        e.update(env)
    # bound the JVM heap explicitly: the default (a quarter of the RAM per JVM) times 16 parallel TLCs gets killed
    e["JAVA_TOOL_OPTIONS"] = ((java_opts + " ") if java_opts else "") + "-Xmx" + xmx
    shutil.rmtree(metadir, ignore_errors=True)
    cmd = ["timeout", str(timeout), "java", "-Xmx" + xmx, "-XX:+UseParallelGC", "-cp",
           "/opt/veriftools/tla/tla2tools.jar:/opt/veriftools/tla/CommunityModules-deps.jar",
           "tlc2.TLC"]
    # prefer the wrapper on PATH (it sets the classpath with the CommunityModules)
    cmd = ["timeout", str(timeout), "tlc"]
    cmd += ["-workers", str(workers), "-metadir", metadir, "-cleanup", "-noGenerateSpecTE",
            "-config", cfg] + (extra or []) + [module]
    p = subprocess.run(cmd, cwd=cwd, env=e, stdout=subprocess.PIPE, stderr=subprocess.STDOUT, text=True)
    out = p.stdout
    shutil.rmtree(metadir, ignore_errors=True)
    r = {"out": out, "rc": p.returncode, "generated": 0, "distinct": 0, "depth": 0, "error": None}
    m = re.search(r"(\d+) states generated, (\d+) distinct states found", out)
    if m:
        r["generated"], r["distinct"] = int(m.group(1)), int(m.group(2))
    m = re.search(r"depth of the complete state graph search is (\d+)", out)
    if m:
        r["depth"] = int(m.group(1))
    if p.returncode == 124:
        r["error"] = "timeout"
    elif "Error:" in out or p.returncode not in (0,):
        m = re.search(r"Error: (.*)", out)
        r["error"] = m.group(1) if m else "rc=%d" % p.returncode
    return r


def write_cfg(path, spec="Spec", constants=None, invariants=(), constraints=(), post=None, view=None,
              props=(), deadlock=False, extra_lines=()):
    lines = ["SPECIFICATION %s" % spec]
    if constants:
        lines.append("CONSTANTS")
        for k, v in constants.items():
            if isinstance(v, str) and v.startswith("<- "):
                lines.append("  %s %s" % (k, v))
            else:
                lines.append("  %s = %s" % (k, v))
    for i in invariants:
        lines.append("INVARIANT %s" % i)
    for c in constraints:
        lines.append("CONSTRAINT %s" % c)
    for p in props:
        lines.append("PROPERTY %s" % p)
    if post:
        lines.append("POSTCONDITION %s" % post)
    if view:
        lines.append("VIEW %s" % view)
    lines.append("CHECK_DEADLOCK %s" % ("TRUE" if deadlock else "FALSE"))
    lines += list(extra_lines)
    with open(path, "w") as f:
        f.write("\n".join(lines) + "\n")


def tla_set(xs):
    return "{" + ",".join('"%s"' % x for x in xs) + "}"


def parse_printed(out, tag):
    """Lines printed by PrintT(<<tag, jsonstring>>) -> list of decoded JSON values."""
    res = []
    pat = re.compile(r'^<<"%s", "(.*)">>$' % re.escape(tag))
    for line in out.splitlines():
        m = pat.match(line.strip())
        if m:
            s = m.group(1).replace('\\"', '"').replace("\\\\", "\\")
            try:
                res.append(json.loads(s))
            except Exception:
                pass
    return res


# --------------------------------------------------------------------------- generation from MQAbs
def gen_sequences(wd, tag, family, fut, cap, depth, ops, simulate=None, max_senders=2, max_streams=2,
                  max_hps=2, timeout=600, workers=8):
    """Call sequences generated by TLC from MQAbsGen. simulate=(num, depth) for random walks."""
    cfg = os.path.join(wd, "gen_%s.cfg" % tag)
    write_cfg(cfg, constants={"Family": '"%s"' % family, "Fut": "TRUE" if fut else "FALSE", "Cap": cap,
                              "Depth": depth, "MaxSenders": max_senders, "MaxStreams": max_streams,
                              "MaxHPS": max_hps, "Ops": tla_set(ops)},
              invariants=["Emitted"])
    extra = []
    w = workers
    if simulate:
        extra = ["-simulate", "num=%d" % simulate[0], "-depth", str(simulate[1] + 2), "-seed", str(seed())]
        w = 1
    r = tlc("MQAbsGen.tla", cfg, os.path.join(wd, "gen_%s.tlc" % tag), workers=w, timeout=timeout, extra=extra)
    seqs = parse_printed(r["out"], "SEQ")
    if r["error"] and not seqs:
        raise ToolError("MQAbsGen failed: %s\n%s" % (r["error"], r["out"][-1500:]))
    # distinct sequences only (simulation repeats itself)
    seen, uniq = set(), []
    for s in seqs:
        k = json.dumps(s, sort_keys=True)
        if k not in seen:
            seen.add(k)
            uniq.append(s)
    return uniq, r


def seq_to_scenario(name, family, fut, cap, seq, wait="busy", spins=None):
    s = {"name": name, "flavour": family, "fut": fut, "cap": cap, "wait": wait, "phases": [[seq]]}
    if spins is not None:
        s["spins"] = spins
    return s


def write_scenarios(path, scns):
    with open(path, "w") as f:
        for s in scns:
            f.write(json.dumps(s) + "\n")


# --------------------------------------------------------------------------- trace validation
def split_runs(lines):
    """Splits trace lines into runs (each starts with a reset line). Returns list of (start, end)."""
    idx = [i for i, l in enumerate(lines) if l.startswith('{"cap"') or '"e":"reset"' in l[:120]]
    idx = [i for i in idx if '"e":"reset"' in lines[i]]
    runs = []
    for k, s in enumerate(idx):
        e = idx[k + 1] if k + 1 < len(idx) else len(lines)
        runs.append((s, e))
    return runs


def _tlc_trace(trace_file, cfg, metadir, timeout=900, module="MQAbsTrace.tla"):
    r = tlc(module, cfg, metadir, env={"TRACE": trace_file}, workers=1, timeout=timeout,
            java_opts=JAVA_TRACE_OPTS, xmx="3g")
    m = re.search(r'<<\s*"RESULT",\s*(\d+),\s*(\d+),\s*(.*?)>>', r["out"], re.S)
    if not m:
        raise ToolError("trace validation produced no RESULT (%s)\n%s" % (r["error"], r["out"][-2000:]))
    return int(m.group(1)), int(m.group(2)), m.group(3), r


# wall-clock budget of one harness process per exploration plan (seconds); set by the checks per tier
TIME_BUDGET = 60
MAX_REJECT_PER_FILE = 4
MAX_EVENTS_PER_TLC = 250000


# ids of the running check (set by the checks) and the ids the oracle knows
OWN_IDS = None
ALL_IDS = ["C01C02", "C01C06", "C01C07", "C03", "C04", "C04C05", "C05", "C06", "C07", "C07C08", "C07C14", "C08", "C09",
           "C11", "C13", "C14", "C15", "C16", "C17", "C18"]


def own_cfg(wd):
    """trace cfg in which only the ids of the running check block (everything else is followed, not judged)"""
    path = os.path.join(wd, "MQAbsTraceOwn.cfg")
    ign = [i for i in ALL_IDS if i not in set(OWN_IDS or [])]
    with open(path, "w") as f:
        f.write("SPECIFICATION Spec\nCONSTANT Ignore = {%s}\nCONSTANT Strict = TRUE\nCONSTRAINT Reg\n"
                "POSTCONDITION Accepted\nCHECK_DEADLOCK FALSE\n" % ", ".join('"%s"' % i for i in ign))
    return path


# per trace file (one per exploration shard) at most this many memory-manager events are validated (whole runs)
MM_MAX_EVENTS_PER_FILE = 600000
MM_KEEP = ('"e":"reset"', '"e":"mminit"', '"e":"mm"', '"e":"ret"', '"e":"stuck"')


def validate_file(trace_file, wd, mm=False):
    """Strict validation of one trace file of many runs. Returns dict(accepted_runs, rejected: [lines...],
    states, generated). mm=True: the memory-manager lines of the file against MQMemImplTrace (runs without such
    lines are not counted); otherwise everything but those lines against MQAbsTrace."""
    with open(trace_file) as f:
        lines = [l.rstrip("\n") for l in f if l.strip()]
    if mm:
        lines = [l for l in lines if any(k in l for k in MM_KEEP)]
        module, cfgname, sfx = "MQMemImplTrace.tla", "MQMemImplTrace.cfg", ".mm"
    else:
        lines = [l for l in lines if '"e":"mm' not in l]
        module, cfgname, sfx = "MQAbsTrace.tla", "MQAbsTrace.cfg", ""
    # a harness process that crashed (which is reported separately) leaves a truncated file: keep complete runs
    good = []
    for l in lines:
        try:
            json.loads(l)
            good.append(l)
        except Exception:
            break
    runs0 = split_runs(good)
    if not mm and runs0 and '"e":"end"' not in good[-1]:
        good = good[:runs0[-1][0]]
    lines = good
    if mm:
        # only runs that carry a memory-manager trace
        keep = []
        for (s0, e0) in split_runs(lines):
            if any('"e":"mminit"' in l for l in lines[s0:min(e0, s0 + 3)]):
                keep += lines[s0:e0]
            if len(keep) > MM_MAX_EVENTS_PER_FILE:
                break
        lines = keep
    res = {"accepted": 0, "rejected": [], "states": 0, "generated": 0, "events": len(lines)}
    base = os.path.basename(trace_file) + sfx
    # big files are validated in chunks of whole runs (bounded memory and time per TLC process)
    chunks, start = [], 0
    for (s0, e0) in split_runs(lines):
        if e0 - start > MAX_EVENTS_PER_TLC and s0 > start:
            chunks.append(lines[start:s0])
            start = s0
    chunks.append(lines[start:])
    it = 0
    cfgpath = os.path.join(SPEC, cfgname)
    cap = MAX_REJECT_PER_FILE
    second_pass = False
    ci = 0
    while ci < len(chunks):
        cur = chunks[ci]
        ci += 1
        while cur and len(res["rejected"]) < cap:
            it += 1
            part = os.path.join(wd, base + ".part%d" % it)
            with open(part, "w") as f:
                f.write("\n".join(cur) + "\n")
            consumed, n, _, r = _tlc_trace(part, cfgpath,
                                           os.path.join(wd, base + ".tlc%d" % it), module=module)
            res["states"] += r["distinct"]
            res["generated"] += r["generated"]
            runs = split_runs(cur)
            os.remove(part)
            if consumed >= n:
                res["accepted"] += len(runs)
                break
            # the run containing the first unmatched line (index consumed, 0-based) is rejected
            bad = None
            for (s, e) in runs:
                if s <= consumed < e:
                    bad = (s, e)
                    break
            if bad is None:
                raise ToolError("cannot locate rejected run at line %d of %s" % (consumed, part))
            res["accepted"] += len([1 for (s, e) in runs if e <= bad[0]])
            res["rejected"].append({"lines": cur[bad[0]:bad[1]], "at": consumed - bad[0]})
            cur = cur[bad[1]:]
        if len(res["rejected"]) >= cap:
            if not mm and not second_pass and OWN_IDS:
                # the rest of the file is looked at once more for the check's own ids only, so that frequent
                # violations of other properties cannot use up the budget and hide a rarer one of this property
                second_pass = True
                cap = 2 * MAX_REJECT_PER_FILE
                cfgpath = own_cfg(wd)
                chunks = chunks[:ci] + [cur] + chunks[ci:] if cur else chunks
                res["own_ids_pass"] = True
                continue
            res["unchecked_after_rejections"] = True
            break
    return res


def validate_many(files, wd, mm=False):
    files = [f for f in files if os.path.exists(f) and os.path.getsize(f) > 0]
    out = {"accepted": 0, "rejected": [], "states": 0, "generated": 0, "events": 0}
    with cf.ThreadPoolExecutor(max_workers=min(NCPU, 16)) as ex:
        for r in ex.map(lambda f: validate_file(f, wd, mm), files):
            for k in ("accepted", "states", "generated", "events"):
                out[k] += r[k]
            out["rejected"] += r["rejected"]
    return out


def diagnose(run_lines, wd, tag):
    """Diagnosis mode on one rejected run: the set of single-property explanations."""
    path = os.path.join(wd, "diag_%s.ndjson" % tag)
    with open(path, "w") as f:
        f.write("\n".join(run_lines) + "\n")
    try:
        consumed, n, sets, r = _tlc_trace(path, os.path.join(SPEC, "MQAbsTraceDiag.cfg"),
                                          os.path.join(wd, "diag_%s.tlc" % tag), timeout=40)
    except ToolError as e:
        return {"ids": [], "raw": str(e), "complete": False}
    # the explanations of minimum size; ids = union of those
    body = sets.strip()
    body = body[1:-1] if body.startswith("{") else body
    inner = re.findall(r"\{([^{}]*)\}", body)
    expl = [sorted(set(re.findall(r'"(C[0-9C]+)"', x))) for x in inner]
    expl = [e for e in expl if e]
    ids = []
    if expl:
        mn = min(len(e) for e in expl)
        ids = sorted(set(i for e in expl if len(e) == mn for i in e))
    return {"ids": ids, "raw": sets, "complete": consumed >= n, "explanations": expl}


# --------------------------------------------------------------------------- findings / verdicts
def load_known():
    p = os.path.join(VERIF, "known_findings.json")
    if not os.path.exists(p):
        return []
    with open(p) as f:
        return json.load(f).get("findings", [])


def run_header(run_lines):
    try:
        return json.loads(run_lines[0])
    except Exception:
        return {}


def match_known(prop, scn_name, ids, run_lines, known):
    """A known finding matches a rejected run by property, scenario-name pattern, violated id and,
    optionally, a call that must occur in the run."""
    for k in known:
        if k.get("status") != "known":
            continue
        if k.get("property") != prop:
            continue
        m = k.get("match", {})
        if "scenario" in m and not re.search(m["scenario"], scn_name or ""):
            continue
        if "ids" in m and not (set(m["ids"]) & set(ids)):
            continue
        if "call" in m:
            pat = m["call"]
            if not any(re.search(pat, l) for l in run_lines):
                continue
        return k
    return None


class Verdict:
    def __init__(self, prop, own_ids):
        self.prop = prop
        self.own = set(own_ids)
        self.violations = []
        self.known_printed = {}
        self.notes = []
        self.known = load_known()

    MAX_JUDGED = 10

    def judge_rejected(self, rej, wd, scheds_by_run=None, scenarios_by_name=None, source=""):
        """rej: entry of validate_*()['rejected']"""
        self.diagnosed = getattr(self, "diagnosed", 0) + 1
        if len(self.violations) >= self.MAX_JUDGED or self.diagnosed > 3 * self.MAX_JUDGED:
            self.unjudged = getattr(self, "unjudged", 0) + 1
            return
        lines = rej["lines"]
        hdr = run_header(lines)
        scn = hdr.get("scn", "")
        tag = hashlib.sha1("\n".join(lines).encode()).hexdigest()[:10]
        d = diagnose(lines, wd, tag)
        ids = d["ids"]
        mine = [i for i in ids if i in self.own]
        if ids and not mine:
            self.notes.append("run of scenario %s violates %s (not %s): see the checks of those properties"
                              % (scn, ",".join(ids), self.prop))
            return
        k = match_known(self.prop, scn, ids, lines, self.known)
        if k:
            self.known_printed[k["id"]] = k
            return
        sched = None
        if scheds_by_run is not None:
            sched = scheds_by_run.get((scn, hdr.get("run")))
        os.makedirs(REPLAYS, exist_ok=True)
        path = os.path.join(REPLAYS, "%s-%s.json" % (self.prop, tag))
        with open(path, "w") as f:
            json.dump({"property": self.prop, "scenario_name": scn,
                       "scenario": (scenarios_by_name or {}).get(scn),
                       "schedule": sched, "diagnosis": d, "unmatched_at": rej.get("at"), "source": source,
                       "trace": [json.loads(l) for l in lines],
                       "replay": "bin/check %s --replay %s" % (self.prop, path)}, f, indent=1)
        self.violations.append(path)

    def mm_drift(self, rej, source=""):
        """A run whose memory-manager ops are not a behaviour of MQMemImpl: conformance, not a property violation"""
        lines = rej["lines"]
        hdr = run_header(lines)
        at = rej.get("at", 0)
        ev = lines[at] if 0 <= at < len(lines) else ""
        self.notes.append("memory-manager ops of scenario %s do not follow MQMemImpl (first at event %d of the run: %s)"
                          % (hdr.get("scn", ""), at, ev[:160]))

    def crash(self, info, wd):
        os.makedirs(REPLAYS, exist_ok=True)
        tag = hashlib.sha1(json.dumps(info, sort_keys=True).encode()).hexdigest()[:10]
        path = os.path.join(REPLAYS, "%s-crash-%s.json" % (self.prop, tag))
        with open(path, "w") as f:
            json.dump({"property": self.prop, "crash": info}, f, indent=1)
        self.violations.append(path)

    def finish(self):
        for k in self.known_printed.values():
            log("KNOWN-FINDING: property=%s %s" % (self.prop, k["what"]))
        for n in sorted(set(self.notes))[:10]:
            log("note: " + n)
        for v in self.violations[:20]:
            log("VIOLATION property=%s replay=%s" % (self.prop, v))
        return 1 if self.violations else 0


def load_scheds(files):
    m = {}
    for f in files:
        if not os.path.exists(f):
            continue
        with open(f) as fh:
            for l in fh:
                try:
                    v = json.loads(l)
                    m[(v["scn"], v["run"])] = v
                except Exception:
                    pass
    return m


# --------------------------------------------------------------------------- evidence
def write_evidence(prop, tier, level, coverage, wall, violations, assumptions):
    os.makedirs(EVID, exist_ok=True)
    ev = {"property_id": prop, "tier": tier, "seed": seed(), "level": level, "coverage": coverage,
          "assumptions": assumptions, "wall_s": round(wall, 2), "violations": violations}
    with open(os.path.join(EVID, "%s.json" % prop), "w") as f:
        json.dump(ev, f, indent=1)
    return ev


def sample_runs(files, n=2, maxlines=40):
    out = []
    for f in files:
        if not os.path.exists(f):
            continue
        with open(f) as fh:
            lines = [l.strip() for l in fh if l.strip()]
        runs = split_runs(lines)
        for (s, e) in runs[:n]:
            out.append([json.loads(x) for x in lines[s:min(e, s + maxlines)]])
        if len(out) >= n:
            break
    return out[:n]
