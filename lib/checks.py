"""Per-property checks. Every check: (1) TLC explores a specification, (2) behaviours / scenarios
derived from it are executed on the real crate under the deterministic scheduler, (3) TLC validates
the recorded traces against MQAbsTrace, (4) verdict + evidence."""
import json
import os
import time

import vlib
from vlib import log

FAMILIES = [("bcast", False), ("mpmc", False), ("bcast", True), ("mpmc", True)]

ASSUME_COMMON = [
    "sequentially consistent interleaving at shim-op granularity (atomics, fences, mutex, condvar, yield, sleep); "
    "weak-memory effects and plain (non-atomic) accesses are not scheduling points",
    "compare_exchange_weak never fails spuriously under the runtime",
    "released blocks are quarantined for the duration of a run, so address reuse (ABA on the stream-list pointer) "
    "is not explored",
    "TLC, the CommunityModules Json/IOUtils modules and the harness (scheduler, ledger payload) are trusted",
]


def alphabet(family, fut, extra=()):
    ops = ["send", "recv", "view", "brecv", "bview", "clone", "drop", "unsub", "into_single", "into_multi"]
    if fut:
        ops += ["start_send", "poll_complete", "poll", "transform"]
    else:
        ops += ["drain", "iter"]
    if family == "bcast":
        ops.append("add_stream")
    return ops + list(extra)


def fam_tag(family, fut):
    return family + ("F" if fut else "")


def sequential_stage(prop, wd, gens, verdict, cov, label="seq"):
    """gens: list of dict(family, fut, cap, depth, ops, simulate, max_*). Generates call sequences with
    TLC from MQAbsGen, executes them on the real crate, validates the traces with TLC."""
    scns = []
    by_name = {}
    for gi, g in enumerate(gens):
        tag = "%s%d_%s_c%d" % (label, gi, fam_tag(g["family"], g["fut"]), g["cap"])
        seqs, r = vlib.gen_sequences(wd, tag, g["family"], g["fut"], g["cap"], g["depth"], g["ops"],
                                     simulate=g.get("simulate"), max_senders=g.get("max_senders", 2),
                                     max_streams=g.get("max_streams", 2), max_hps=g.get("max_hps", 2),
                                     timeout=g.get("timeout", 900))
        cov["states"] += r["distinct"]
        cov["transitions"] += r["generated"]
        cov["generated_behaviours"] += len(seqs)
        if g.get("simulate") is None and r["error"] is None:
            cov["exhaustive_generators"] += 1
        log("  [gen] %s: %d behaviours (%d distinct states%s)" %
            (tag, len(seqs), r["distinct"], ", simulate" if g.get("simulate") else ", exhaustive to depth %d" % g["depth"]))
        for k, s in enumerate(seqs):
            name = "%s-%d" % (tag, k)
            sc = vlib.seq_to_scenario(name, g["family"], g["fut"], g["cap"], s, wait=g.get("wait", "busy"),
                                      spins=[0, 0] if (g["fut"] and g["family"] == "bcast") else None)
            scns.append(sc)
            by_name[name] = sc
    scn_file = os.path.join(wd, "%s.scn.ndjson" % label)
    vlib.write_scenarios(scn_file, scns)
    traces, scheds, st = vlib.explore(scn_file, wd, label, "default")
    log("  [run] %d runs on the real crate, %d distinct traces, outcomes %s" %
        (st["runs"], st["distinct_traces"], st["outcomes"]))
    for c in st["crashes"]:
        verdict.crash(c, wd)
    val = vlib.validate_many(traces, wd)
    log("  [tlc] trace validation: %d runs accepted, %d rejected (%d events, %d states)" %
        (val["accepted"], len(val["rejected"]), val["events"], val["states"]))
    sb = vlib.load_scheds(scheds)
    for rej in val["rejected"]:
        verdict.judge_rejected(rej, wd, sb, by_name, source=label)
    cov["states"] += val["states"]
    cov["transitions"] += val["generated"]
    cov["traces_validated_against_impl"] += val["accepted"]
    cov["evaluations"] += st["runs"]
    cov["distinct_nontrivial"] += st["distinct_traces"]
    cov["trace_events"] += val["events"]
    if not cov["samples"]:
        cov["samples"] = vlib.sample_runs(traces, 2)
    return st, val


def new_cov(rule):
    return {"states": 0, "transitions": 0, "traces_validated_against_impl": 0, "samples": [],
            "evaluations": 0, "distinct_nontrivial": 0, "rule": rule, "generated_behaviours": 0,
            "exhaustive_generators": 0, "trace_events": 0, "exhaustive": False}


def concurrent_stage(prop, wd, scns, verdict, cov, plans, label="conc"):
    """Runs scenario files on the real crate under harness-native schedule sources (every run is judged by
    TLC through MQAbsTrace). plans: list of (mode, runs, bound)."""
    by_name = {s["name"]: s for s in scns}
    scn_file = os.path.join(wd, "%s.scn.ndjson" % label)
    vlib.write_scenarios(scn_file, scns)
    all_traces = []
    for (mode, runs, bound) in plans:
        tag = "%s_%s%d" % (label, mode, bound)
        traces, scheds, st = vlib.explore(scn_file, wd, tag, mode, runs=runs, bound=bound)
        log("  [run] %s: %d scenarios, %s bound=%d: %d runs, %d distinct traces, %d with preemptions, outcomes %s%s%s" %
            (label, len(scns), mode, bound, st["runs"], st["distinct_traces"], st["nontrivial"], st["outcomes"],
             "" if st["exhaustive"] or mode != "dfs" else " (run cap reached: not exhaustive)",
             " (%d shards stopped by the time budget)" % st["out_of_time"] if st["out_of_time"] else ""))
        cov.setdefault("shards_stopped_by_time_budget", 0)
        cov["shards_stopped_by_time_budget"] += st["out_of_time"]
        for c in st["crashes"]:
            verdict.crash(c, wd)
        val = vlib.validate_many(traces, wd)
        log("  [tlc] trace validation: %d accepted, %d rejected (%d events, %d states)" %
            (val["accepted"], len(val["rejected"]), val["events"], val["states"]))
        sb = vlib.load_scheds(scheds)
        for rej in val["rejected"]:
            verdict.judge_rejected(rej, wd, sb, by_name, source=tag)
        if any(s_.get("mm_trace") for s_ in scns):
            # the memory manager's ops of the same runs, validated op by op against MQMemImpl
            vm = vlib.validate_many(traces, wd, mm=True)
            log("  [tlc] memory-manager traces against MQMemImpl: %d runs conform, %d do not (%d events, %d states)" %
                (vm["accepted"], len(vm["rejected"]), vm["events"], vm["states"]))
            cov.setdefault("mm_runs_conforming", 0)
            cov.setdefault("mm_runs_drifting", 0)
            cov.setdefault("mm_events", 0)
            cov["mm_runs_conforming"] += vm["accepted"]
            cov["mm_runs_drifting"] += len(vm["rejected"])
            cov["mm_events"] += vm["events"]
            cov["states"] += vm["states"]
            cov["transitions"] += vm["generated"]
            for rej in vm["rejected"][:3]:
                verdict.mm_drift(rej, source=tag)
        cov["states"] += val["states"]
        cov["transitions"] += val["generated"]
        cov["traces_validated_against_impl"] += val["accepted"]
        cov["evaluations"] += st["runs"]
        cov["distinct_nontrivial"] += st["nontrivial"]
        cov["trace_events"] += val["events"]
        cov.setdefault("stuck_runs", 0)
        cov["stuck_runs"] += sum(v for k, v in st["outcomes"].items() if k != "Done")
        if mode == "dfs":
            cov.setdefault("dfs_exhaustive", True)
            cov["dfs_exhaustive"] = cov["dfs_exhaustive"] and st["exhaustive"]
        all_traces += traces
    if not cov["samples"]:
        cov["samples"] = vlib.sample_runs(all_traces, 2)


# =========================================================================== C09
def check_C09(tier):
    t0 = time.time()
    prop = "C09"
    wd = vlib.workdir(prop)
    v = vlib.Verdict(prop, ["C09", "C01C02", "C03", "C05", "C06", "C07", "C11", "C13", "C04", "C15", "C17", "C16",
                            "C18", "C08", "C14", "C07C08", "C07C14", "C04C05", "C01C06", "C01C07"])
    cov = new_cov("call sequences generated by TLC from MQAbsGen (exhaustive to the stated depth per handle family, "
                  "plus -simulate walks over capacities 0..9); each is executed on the real crate and its trace "
                  "validated against MQAbsTrace; distinct_nontrivial = distinct recorded API traces")
    gens = []
    depth = 4 if tier == "quick" else 5
    for (fam, fut) in FAMILIES:
        gens.append(dict(family=fam, fut=fut, cap=2 if fam == "bcast" else 1, depth=depth,
                         ops=alphabet(fam, fut)))
    nwalk = 120 if tier == "quick" else 1500
    wdepth = 40 if tier == "quick" else 60
    caps = [0, 1, 2, 3, 4, 5, 8, 9] if tier == "thorough" else [0, 3, 4, 9]
    for i, cap in enumerate(caps):
        fam, fut = FAMILIES[i % 4]
        gens.append(dict(family=fam, fut=fut, cap=cap, depth=wdepth, ops=alphabet(fam, fut),
                         simulate=(nwalk, wdepth), max_senders=4, max_streams=4, max_hps=3))
    sequential_stage(prop, wd, gens, v, cov)
    # hand-written single-threaded histories that start with the epoch-change signal pending
    base = []
    for (fam, fut) in FAMILIES:
        base += sc.no_receivers("C09n", fam, caps=(1,), fut=fut) + sc.traffic("C09t", fam, fut=fut, caps=(1,))[:2]
    seqs = []
    for s_ in sc.with_epoch_pending(base) + sc.with_epoch_late(base):
        flat = []
        for ph in s_["phases"]:
            for th in ph:
                for op in th:
                    o = dict(op)
                    # one thread: nothing may wait for another thread
                    o["op"] = {"fsend": "start_send", "frecv": "poll", "frecv_all": "poll", "brecv_all": "drain",
                               "recv_all": "drain", "poll_all": "poll", "brecv": "recv"}.get(o["op"], o["op"])
                    o.pop("retry", None)
                    flat.append(o)
        s2 = dict(s_)
        s2["phases"] = [[flat]]
        seqs.append(s2)
    concurrent_stage(prop, wd, seqs, v, cov, [("default", 1, 0)], label="epochseq")
    rc = v.finish()
    vlib.write_evidence(prop, tier, "model_checking", cov, time.time() - t0, len(v.violations),
                        ASSUME_COMMON + ["sequence depth / walk length as stated in coverage.rule"])
    return rc


import scenarios as sc  # noqa: E402
import models as md  # noqa: E402
import concurrent.futures as cf  # noqa: E402


def impl_model_stage(prefixes, expect_fail=(), orig_mutants=(), nonotify_mutants=(), keep=()):
    """Stage factory: exhaustive TLC runs of the fine-grained model MQImpl on the model scenarios whose name
    starts with one of `prefixes`, then behaviours generated from it are replayed in lockstep on the real
    crate (op kind, location and value compared at every step) and the recorded API traces validated."""
    def stage(wd, v, cov, tier):
        md.copy_specs(wd)
        allm = md.standard_models(tier) + md.known_finding_models()
        sel = [m for m in allm if any(m["name"].startswith(p) for p in prefixes)]
        if tier == "quick":
            sel = [m for m in sel if m["N"] == 1 or m["name"].startswith(("spsc", "view", "norecv", "unsub2"))
                   or m["name"] in keep]
        cov.setdefault("model_configs", [])
        cov.setdefault("lockstep_matched", 0)
        cov.setdefault("lockstep_drift", 0)
        cov.setdefault("model_invariant_failures", [])

        def run_exh(m):
            mod, cfg = md.write_model(m, wd, False)
            return m, vlib.tlc(mod, cfg, os.path.join(wd, "tlc_" + m["name"]), workers=4, timeout=1200, cwd=wd,
                               extra=["-coverage", "1"])
        with cf.ThreadPoolExecutor(max_workers=4) as ex:
            results = list(ex.map(run_exh, sel))
        import re as _re2
        taken, seen_actions = set(), set()
        for m, r in results:
            for l in r["out"].splitlines():
                mm = _re2.match(r"<(\w+) line .* of module MQImpl>: (\d+):(\d+)", l)
                if mm:
                    seen_actions.add(mm.group(1))
                    if int(mm.group(3)) > 0:
                        taken.add(mm.group(1))
        cov["mqimpl_actions_taken"] = len(taken)
        cov["mqimpl_actions_never_taken_in_this_check"] = sorted(seen_actions - taken - {"Init"})
        for m, r in results:
            if r["error"] == "timeout" or (r["error"] and "Invariant" not in r["error"] and "violated" not in r["out"]):
                raise vlib.ToolError("TLC failed on %s: %s\n%s" % (m["name"], r["error"], r["out"][-1500:]))
            failed = r["error"] is not None
            inv = ""
            if failed:
                import re as _re
                mm = _re.search(r"Invariant (\w+) is violated", r["out"])
                inv = mm.group(1) if mm else "?"
            cov["states"] += r["distinct"]
            cov["transitions"] += r["generated"]
            cov["model_configs"].append({"name": m["name"], "N": m["N"], "bcast": m["bcast"], "wait": m["wait"],
                                         "distinct_states": r["distinct"], "invariant_violated": inv or None})
            if failed and m["name"] not in expect_fail:
                cov["model_invariant_failures"].append({"model": m["name"], "invariant": inv})
                log("  [model] %s: invariant %s violated in the specification (design-level finding; "
                    "the harness must exhibit it on the code before it counts)" % (m["name"], inv))
            elif not failed and m["name"] in expect_fail:
                log("  [model] %s: expected counterexample (known finding) not found" % m["name"])
        # temporal cross-check (C08): with every thread scheduled fairly the scenario terminates; only on
        # configurations whose programs are guaranteed something to receive (blockdisc_*)
        cov.setdefault("liveness_configs", [])
        for m in sel:
            if not m["name"].startswith("blockdisc"):
                continue
            mod, cfg = md.write_model(m, wd, False)
            c = open(cfg).read().replace("SPECIFICATION Spec", "SPECIFICATION FairSpec")
            c = "\n".join(l for l in c.splitlines() if not l.startswith("INVARIANT")) + "\nPROPERTY Termination\n"
            lcfg = cfg.replace(".cfg", "_live.cfg")
            open(lcfg, "w").write(c)
            r = vlib.tlc(mod, lcfg, os.path.join(wd, "tlc_live_" + m["name"]), workers=2, timeout=600, cwd=wd)
            okl = r["error"] is None
            cov["liveness_configs"].append({"name": m["name"], "wait": m["wait"], "states": r["distinct"],
                                            "terminates_under_fairness": okl})
            cov["states"] += r["distinct"]
            if not okl:
                cov["model_invariant_failures"].append({"model": m["name"], "invariant": "Termination"})
                log("  [model] %s: Termination violated under fairness (design-level finding)" % m["name"])
        # seeded specification mutants: the original remove_reader must be refuted by TLC
        cov.setdefault("spec_mutants_refuted", 0)
        for name in orig_mutants:
            mm_ = [m for m in allm if m["name"] == name]
            if not mm_:
                continue
            mod, cfg = md.write_model(mm_[0], wd, False, last_stream_stays=False)
            r = vlib.tlc(mod, cfg, os.path.join(wd, "tlc_orig_" + name), workers=4, timeout=600, cwd=wd)
            cov["states"] += r["distinct"]
            cov["transitions"] += r["generated"]
            if r["error"] and "violated" in r["out"]:
                cov["spec_mutants_refuted"] += 1
            else:
                log("  [model] seeded specification mutant %s (original remove_reader) NOT refuted" % name)
        for name in nonotify_mutants:
            mm_ = [m for m in allm if m["name"] == name]
            if not mm_:
                continue
            mod, cfg = md.write_model(mm_[0], wd, False, notify_on_empty_poll=False)
            r = vlib.tlc(mod, cfg, os.path.join(wd, "tlc_nonotify_" + name), workers=4, timeout=600, cwd=wd)
            cov["states"] += r["distinct"]
            cov["transitions"] += r["generated"]
            if r["error"] and "NoLostWakeup" in r["out"]:
                cov["spec_mutants_refuted"] += 1
            else:
                log("  [model] seeded specification mutant %s (no notify on an empty poll) NOT refuted" % name)
        log("  [model] MQImpl exhaustively: %d configs, %d distinct states, %d seeded spec mutants refuted" %
            (len(results), sum(r["distinct"] for _, r in results), cov["spec_mutants_refuted"]))
        # behaviours -> lockstep replay
        gen = [m for m in sel if m["name"] not in expect_fail]

        def run_gen(m):
            big = len(m["threads"]) > 2
            mod, cfg = md.write_model(m, wd, True, max_pre=(1 if tier == "quick" else 2))
            extra = None
            if big or tier == "quick":
                # random behaviours instead of the full bounded enumeration
                with open(cfg) as f:
                    c = f.read().replace("CONSTRAINT PreBound\n", "")
                with open(cfg, "w") as f:
                    f.write(c)
                extra = ["-simulate", "num=%d" % (150 if tier == "quick" else 1500), "-depth", "600",
                         "-seed", str(vlib.seed())]
            r = vlib.tlc(mod, cfg, os.path.join(wd, "tlch_" + m["name"]), workers=(1 if extra else 4), timeout=900,
                         cwd=wd, extra=extra)
            return m, r, vlib.parse_printed(r["out"], "REPLAY")
        with cf.ThreadPoolExecutor(max_workers=8) as ex:
            gens = list(ex.map(run_gen, gen))
        scns, lines = [], []
        for m, r, hists in gens:
            seen, uniq = set(), []
            for h in hists:
                k = json.dumps(h)
                if k not in seen:
                    seen.add(k)
                    uniq.append(h)
            hs, skip = md.to_harness(m)
            scns.append(hs)
            uniq = uniq[:20000]
            lines += md.behaviours_to_replay(m, uniq, skip)
            cov["generated_behaviours"] += len(uniq)
        if not lines:
            return
        scn_file = os.path.join(wd, "impl.scn.ndjson")
        vlib.write_scenarios(scn_file, scns)
        # shard the replay lines
        shards = 8
        files = []
        for k in range(shards):
            part = lines[k::shards]
            if not part:
                continue
            f = os.path.join(wd, "impl.replay.%d.ndjson" % k)
            with open(f, "w") as fh:
                for l in part:
                    fh.write(json.dumps(l) + "\n")
            files.append((f, os.path.join(wd, "impl.%d.api.ndjson" % k), os.path.join(wd, "impl.%d.sched.ndjson" % k)))
        vlib.build_harness()
        with cf.ThreadPoolExecutor(max_workers=shards) as ex:
            stats = list(ex.map(lambda t: vlib.run_harness(["replay", "--scn", scn_file, "--sched", t[0], "--out", t[1],
                                                            "--sched-out", t[2]]), files))
        drift_scn = set()
        drift_prefixes = []
        for st in stats:
            if "crash" in st:
                v.crash(st, wd)
                continue
            e = st.get("extra", {})
            cov["lockstep_matched"] += e.get("lockstep_matched", 0)
            cov["lockstep_drift"] += e.get("lockstep_drift", 0)
            drift_prefixes += e.get("drifts") or []
            if e.get("first_drift"):
                drift_scn.add(e["first_drift"]["scn"])
                v.notes.append("model-drift: the code no longer follows MQImpl in scenario %s at op %s: expected %s got %s"
                               % (e["first_drift"]["scn"], e["first_drift"]["at"], e["first_drift"]["expected"],
                                  e["first_drift"]["got"]))
        ms = vlib.merge_stats(stats)
        log("  [replay] %d TLC-generated behaviours replayed in lockstep: %d matched op by op, %d drifted" %
            (len(lines), cov["lockstep_matched"], cov["lockstep_drift"]))
        val = vlib.validate_many([t[1] for t in files], wd)
        log("  [tlc] their API traces: %d accepted, %d rejected" % (val["accepted"], len(val["rejected"])))
        by_name = {s["name"]: s for s in scns}
        sb = vlib.load_scheds([t[2] for t in files])
        for rej in val["rejected"]:
            v.judge_rejected(rej, wd, sb, by_name, source="lockstep-replay")
        cov["states"] += val["states"]
        cov["transitions"] += val["generated"]
        cov["traces_validated_against_impl"] += val["accepted"]
        cov["evaluations"] += ms["runs"]
        cov["distinct_nontrivial"] += ms["nontrivial"]
        if drift_prefixes:
            # drift-directed exploration, first part: every interleaving with <= 2 preemptions BELOW the schedule
            # prefixes that reach a divergence (the system is then exactly where the code does something else)
            seen_p, uniq_p = set(), []
            for d in drift_prefixes:
                k = (d["scn"], tuple(d["prefix"]))
                if k not in seen_p:
                    seen_p.add(k)
                    uniq_p.append(d)
            uniq_p = uniq_p[:48]
            pf = os.path.join(wd, "drift_prefixes.ndjson")
            with open(pf, "w") as fh:
                for d in uniq_p:
                    fh.write(json.dumps(d) + "\n")
            extra_scn = [s_ for s_ in scns if s_["name"] in {d["scn"] for d in uniq_p}]
            xf = os.path.join(wd, "driftp.scn.ndjson")
            vlib.write_scenarios(xf, extra_scn)
            tr, sc_, st2 = vlib.explore(xf, wd, "driftp", "dfs", runs=(3000 if tier == "quick" else 20000), bound=2,
                                        extra=["--prefix-file", pf])
            log("  [drift] below %d diverging prefixes: %d runs, %d distinct traces, outcomes %s" %
                (len(uniq_p), st2["runs"], st2["distinct_traces"], st2["outcomes"]))
            for c_ in st2["crashes"]:
                v.crash(c_, wd)
            val2 = vlib.validate_many(tr, wd)
            log("  [tlc] trace validation: %d accepted, %d rejected" % (val2["accepted"], len(val2["rejected"])))
            sb2 = vlib.load_scheds(sc_)
            for rej in val2["rejected"]:
                v.judge_rejected(rej, wd, sb2, {s_["name"]: s_ for s_ in extra_scn}, source="dfs-below-drift")
            cov["states"] += val2["states"]
            cov["traces_validated_against_impl"] += val2["accepted"]
            cov["evaluations"] += st2["runs"]
            cov["drift_directed_runs"] = cov.get("drift_directed_runs", 0) + st2["runs"]
        if drift_scn:
            # second part: the code does something else there, search that scenario harder from the start
            extra = [s for s in scns if s["name"] in drift_scn]
            log("  [drift] exploring %d drifting scenario(s) natively" % len(extra))
            concurrent_stage("drift", wd, extra, v, cov,
                             [("dfs", 20000 if tier == "quick" else 200000, 2), ("random", 1500, 0), ("pct", 1500, 0)],
                             label="drift")
    stage.prefixes = tuple(p for p in prefixes if p not in ("addshared",))
    return stage


def plans_for(tier, dfs_cap_quick=700, dfs_cap_thorough=4000, rnd_quick=150, rnd_thorough=1500):
    # bound 1 first: every schedule in which one thread is frozen once, at any op, while the others run on
    # (linear in the run length, normally complete), then the deeper capped enumeration
    if tier == "quick":
        return [("dfs", 1500, 1), ("dfs", dfs_cap_quick, 2), ("random", rnd_quick, 0), ("pct", rnd_quick, 0)]
    return [("dfs", 20000, 1), ("dfs", dfs_cap_thorough, 3), ("random", rnd_thorough, 0), ("pct", rnd_thorough, 0)]


def caps_for(tier):
    return (1, 2) if tier == "quick" else (1, 2, 4)


def generic_check(prop, tier, own, scns, plans, rule, gens=None, extra_assume=(), models=None, deep=None):
    t0 = time.time()
    vlib.TIME_BUDGET = 60 if tier == "quick" else 240
    vlib.MM_MAX_EVENTS_PER_FILE = 150000 if tier == "quick" else 600000
    vlib.OWN_IDS = list(own)
    wd = vlib.workdir(prop)
    v = vlib.Verdict(prop, own)
    cov = new_cov(rule)
    if models:
        for m in models:
            m(wd, v, cov, tier)
    if gens:
        sequential_stage(prop, wd, gens, v, cov)
    if scns:
        # the model scenarios of MQImpl (both ring sizes) are explored natively as well, not only replayed
        pref = tuple(p for m in (models or []) for p in getattr(m, "prefixes", ()))
        if pref:
            seen = {s_["name"] for s_ in scns}
            for mm_ in md.standard_models(tier):
                if mm_["name"].startswith(pref):
                    hs, _ = md.to_harness(mm_)
                    hs = dict(hs)
                    hs["name"] = "M-" + hs["name"]
                    if hs["name"] not in seen:
                        scns = scns + [hs]
        cov["scenarios"] = len(scns)
        concurrent_stage(prop, wd, scns, v, cov, plans)
    if deep:
        # a few scenarios with their own, much larger plan
        cov["scenarios"] = cov.get("scenarios", 0) + len(deep[0])
        concurrent_stage(prop, wd, deep[0], v, cov, deep[1], label="deep")
    rc = v.finish()
    cov["known_findings_printed"] = sorted(v.known_printed.keys())
    vlib.write_evidence(prop, tier, "model_checking", cov, time.time() - t0, len(v.violations),
                        ASSUME_COMMON + list(extra_assume))
    return rc


RULE_IMPL = ("; design level: TLC explores the op-granular model MQImpl exhaustively on small configurations (invariants "
             "NoBad/ExactlyOnceInOrder/Window/QuiescentClean/FinalMatches/NoStuck) and behaviours generated from it are "
             "replayed in lockstep on the real crate (kind, location and value of every operation compared)")
RULE_CONC = ("scenario families (topology x program templates x capacity x wait strategy) run on the real crate under "
             "the deterministic scheduler: preemption-bounded DFS over shim-op interleavings (bound and run cap per "
             "tier), uniform random walks and PCT; every distinct recorded API/ledger trace is validated by TLC against "
             "MQAbsTrace (linearisation search); distinct_nontrivial = distinct (scenario, schedule) pairs with at "
             "least one preemption")


def check_C01(tier):
    caps = caps_for(tier)
    scns = (sc.traffic("C01", "bcast", caps=caps) + sc.traffic("C01", "mpmc", caps=caps) +
            sc.uni_traffic("C01", "bcast", caps=caps) + sc.uni_traffic("C01", "mpmc", caps=caps) +
            sc.traffic("C01", "bcast", fut=True, caps=caps[:2]) + sc.traffic("C01", "mpmc", fut=True, caps=caps[:1]) +
            sc.add_stream_scn("C01a", caps=caps[:2]) + sc.population("C01p", "bcast", caps=caps[:1]))
    # a consumer that keeps receiving but is never handed a value that was accepted for its stream (blocked or
    # parked for ever: ids C08 / C14 and the joint ids) has not been delivered that value either
    return generic_check("C01", tier, ["C01C02", "C01C06", "C01C07", "C08", "C14", "C07C08", "C07C14"], scns, plans_for(tier), RULE_CONC + RULE_IMPL,
                         models=[impl_model_stage(["spsc", "mpsc", "spmc", "bcast2", "view", "adddouble"])])


def check_C02(tier):
    caps = caps_for(tier)
    shapes = [(2, [1, 1], 2, "recv", False, 3), (2, [2], 2, "recv", False, 2), (2, [1], 2, "brecv", True, 0),
              (2, [1, 1], 1, "brecv", True, 0), (1, [1, 1], 3, "recv", False, 3)]
    scns = (sc.traffic("C02", "bcast", caps=caps, shapes=shapes) + sc.traffic("C02", "mpmc", caps=caps, shapes=shapes) +
            sc.population("C02p", "bcast", caps=caps[:2]) +
            # streams that appear during traffic (two at a time as well) must join the one common order
            sc.add_stream_scn("C02a", caps=caps[:2]) + sc.add_vs_remove("C02x", caps=caps[:1]))
    return generic_check("C02", tier, ["C01C02"], scns, plans_for(tier), RULE_CONC + RULE_IMPL,
                         models=[impl_model_stage(["mpsc", "bcast2", "spmc", "popsend", "adddouble"])])


def check_C03(tier):
    caps = caps_for(tier)
    shapes = [(1, [1], 4, "recv", False, 2), (1, [1, 1], 3, "recv", False, 1), (2, [1], 3, "recv", False, 2),
              (2, [2], 2, "brecv", True, 0), (1, [2], 3, "brecv", True, 0), (2, [1, 1], 2, "recv", False, 1)]
    scns = (sc.traffic("C03", "bcast", caps=caps, shapes=shapes, probe=True) +
            sc.traffic("C03", "mpmc", caps=caps, shapes=shapes, probe=True) +
            sc.traffic("C03", "bcast", fut=True, caps=caps[:2], shapes=shapes[:3], probe=True) +
            sc.add_stream_scn("C03a", caps=caps[:2]) + sc.remove_stream("C03r", "bcast", caps=caps[:2]) +
            sc.add_vs_remove("C03x", caps=caps[:2]) +
            sc.population("C03p", "bcast", caps=caps[:2]))
    # capacity normalisation: requested capacities 0..9, fill a fresh queue, drain, fill again
    gens = []
    for cap in range(0, 10):
        for (fam, fut) in (FAMILIES if tier == "thorough" else FAMILIES[:2]):
            gens.append(dict(family=fam, fut=fut, cap=cap, depth=3, ops=["fillprobe"]))
    return generic_check("C03", tier, ["C03", "C01C02", "C01C06"], scns, plans_for(tier), RULE_CONC +
                         "; plus a fill/drain/fill probe for every requested capacity 0..9", gens=None,
                         models=[lambda wd, v, cov, tier: capacity_probe(wd, v, cov, tier),
                                 impl_model_stage(["mpsc", "bcast2", "spsc", "rmstream", "addsole", "adddouble"])])


def capacity_probe(wd, v, cov, tier):
    scns = []
    for cap in range(0, 10):
        for (fam, fut) in FAMILIES:
            ops = [sc.S("fill", "tx", v=1000, n=40), sc.S("drain", "rx"), sc.S("fill", "tx", v=2000, n=40),
                   sc.S("recv", "rx"), sc.S("send", "tx", v=3000), sc.S("send", "tx", v=3001), sc.S("drop", "tx"),
                   sc.S("drain", "rx"), sc.S("drop", "rx")]
            scns.append(vlib.seq_to_scenario("C03cap-%s-%d" % (fam_tag(fam, fut), cap), fam, fut, cap, ops,
                                             spins=[0, 0] if (fut and fam == "bcast") else None))
            # the same bound across the switches between single- and multi-producer mode: a second sender appears
            # after more than N single-producer sends, fills, goes away again
            ops = [sc.S("fill", "tx", v=1000, n=40), sc.S("drain", "rx"), sc.S("send", "tx", v=1500), sc.S("recv", "rx"),
                   sc.S("clone", "tx", new="t2"), sc.S("fill", "t2", v=2000, n=40), sc.S("drain", "rx"),
                   sc.S("fill", "tx", v=3000, n=40), sc.S("recv", "rx"), sc.S("send", "t2", v=3500), sc.S("send", "tx", v=3501),
                   sc.S("drain", "rx"), sc.S("drop", "t2"), sc.S("fill", "tx", v=4000, n=40), sc.S("drain", "rx"),
                   sc.S("drop", "tx"), sc.S("drain", "rx"), sc.S("drop", "rx")]
            scns.append(vlib.seq_to_scenario("C03mode-%s-%d" % (fam_tag(fam, fut), cap), fam, fut, cap, ops,
                                             spins=[0, 0] if (fut and fam == "bcast") else None))
    concurrent_stage("C03", wd, scns, v, cov, [("default", 1, 0)], label="capprobe")


def check_C04(tier):
    caps = caps_for(tier)
    shapes = [(1, [2], 4, "brecv", True, 0), (1, [2], 3, "recv", False, 2), (1, [3], 3, "recv", False, 1),
              (1, [2, 1], 3, "recv", False, 1), (2, [2], 2, "recv", False, 2)]
    scns = (sc.traffic("C04", "bcast", caps=caps, shapes=shapes) + sc.traffic("C04", "mpmc", caps=caps, shapes=shapes) +
            sc.uni_traffic("C04", "bcast", caps=caps) + sc.uni_traffic("C04", "mpmc", caps=caps) +
            sc.population("C04p", "bcast", caps=caps[:2]) + sc.deep_shared("C04x") +
            # a stream appears while the producer wraps: a slot the new stream has not passed must not be rewritten
            # under its clone / view
            sc.add_stream_scn("C04a", caps=caps[:2]) +
            sc.with_drop_yield(sc.uni_traffic("C04y", "mpmc", caps=caps[:2]) + sc.traffic("C04y", "bcast", caps=caps[:1])[:3]))
    # + the bounded tree restricted to preemptions of one victim thread, three deep (a consumer that loses a cursor
    # race, is overtaken by its sibling and is then lapped inside its clone needs three preemptions of one thread)
    plans = plans_for(tier) + [("victim", 1200 if tier == "quick" else 20000, 3)]
    return generic_check("C04", tier, ["C04", "C04C05"], scns, plans, RULE_CONC +
                         "; the payload's Clone and the view closure contain a scheduling point, so the real code is "
                         "interleaved inside the clone/view" + RULE_IMPL,
                         models=[impl_model_stage(["spmc_b", "disc_b", "view", "bview", "bcast2", "sibdrop_b"], keep=("spmc_b2", "sibdrop_b2"))],
                         # a consumer overtaken by two siblings that take one value each and leave, on a ring that is
                         # refilled: the victim enumeration three deep with a large cap (measured: the seeded change
                         # C04-n2 shows in about 1 of 3 800 of these schedules, never on the unchanged tree)
                         deep=(sc.overtaken("C04o", caps=(1, 2)) + sc.overtaken("C04o", family="mpmc", caps=(1, 2)),
                               [("victim", 40000 if tier == "quick" else 400000, 3)]))


def check_C05(tier):
    caps = caps_for(tier)
    scns = (sc.no_receivers("C05n", "bcast", caps=caps[:2]) + sc.no_receivers("C05n", "mpmc", caps=caps[:2]) +
            sc.traffic("C05", "bcast", caps=caps[:2]) + sc.traffic("C05", "mpmc", caps=caps[:2]) +
            sc.traffic("C05w", "bcast", caps=caps[:2], shapes=[(1, [2], 4, "brecv", True, 0), (1, [2], 3, "recv", False, 2),
                                                               (1, [3], 3, "recv", False, 1)]) +
            sc.uni_traffic("C05", "mpmc", caps=caps[:2]) + sc.population("C05p", "mpmc", caps=caps[:2]) +
            sc.disconnect("C05d", "mpmc", caps=caps[:2]) + sc.known_mpmc_two_streams("C05k") +
            sc.with_drop_yield(sc.uni_traffic("C05y", "mpmc", caps=caps[:2]) + sc.uni_traffic("C05y", "bcast", caps=caps[:1]) +
                               sc.traffic("C05y", "mpmc", caps=caps[:1])[:3]))
    depth = 4 if tier == "quick" else 5
    gens = []
    for (fam, fut) in FAMILIES:
        gens.append(dict(family=fam, fut=fut, cap=1 if fam == "mpmc" else 2, depth=depth,
                         ops=[o for o in alphabet(fam, fut) if o not in ("brecv", "bview", "poll_complete")]))
    return generic_check("C05", tier, ["C05", "C04C05"], scns, plans_for(tier), RULE_CONC +
                         "; plus all sequential histories to the depth bound generated from MQAbsGen (teardown in "
                         "every order: whatever is alive at the end is dropped with the ledger recording)" + RULE_IMPL +
                         "; MQImpl carries the ownership ledger of the payloads (invariants NoBad/TeardownClean)",
                         gens=gens, models=[impl_model_stage(["norecv", "spsc_m", "mpsc_m", "disc_m", "view", "sibdrop_m"],
                                                             orig_mutants=("norecv_m1", "norecv_m2"))])


def check_C06(tier):
    caps = caps_for(tier)
    scns = (sc.traffic("C06", "bcast", caps=caps, probe=True) + sc.traffic("C06", "mpmc", caps=caps, probe=True) +
            sc.remove_stream("C06r", "bcast", caps=caps[:2]) + sc.population("C06p", "bcast", caps=caps[:2]) +
            sc.population("C06p", "mpmc", caps=caps[:2]) + sc.add_stream_scn("C06a", caps=caps[:2]) +
            sc.add_vs_remove("C06x", caps=caps[:2]) +
            # the futures side of the same rule: a sink that met a transient Full parks, and once the other calls have
            # returned it must be running again (a sink parked for ever next to free slots is a Full that stayed)
            sc.futures_scn("C06f", "bcast", caps=caps[:1]) + sc.traffic("C06", "bcast", fut=True, caps=caps[:1], probe=True))
    return generic_check("C06", tier, ["C06", "C01C06", "C14", "C07C14"], scns, plans_for(tier), RULE_CONC +
                         "; every scenario ends with all threads joined and a single-threaded probe (drain every stream "
                         "to Empty, send until Full), whose calls are not overlapped and must equal the model exactly"
                         + RULE_IMPL, models=[impl_model_stage(["spsc", "rmstream", "popsend", "poprecv", "unsub2", "fut_shared", "fut_direct"])])


def check_C07(tier):
    caps = caps_for(tier)
    scns = (sc.disconnect("C07", "bcast", caps=caps) + sc.disconnect("C07", "mpmc", caps=caps) +
            sc.disconnect("C07", "bcast", caps=caps[:2], fut=True) + sc.disconnect("C07", "mpmc", caps=caps[:1], fut=True) +
            sc.blocking("C07b", "bcast", caps=caps[:1], waits=("busy", "block00")) +
            # stream tasks that wait for their notification: the end of the stream must reach a task that parks
            # while the last sender is leaving
            sc.futures_scn("C07f", "bcast", caps=caps[:2]) + sc.futures_scn("C07f", "mpmc", caps=caps[:1]))
    return generic_check("C07", tier, ["C07", "C07C08", "C07C14", "C01C07"], scns, plans_for(tier), RULE_CONC + RULE_IMPL,
                         models=[impl_model_stage(["disc", "blockdisc", "sibdrop", "fut_spsc", "fut_2sinks"])])


def check_C08(tier):
    caps = caps_for(tier)
    waits = ("busy", "yield00", "block00") if tier == "quick" else ("busy", "yield00", "block00", "yield11", "block11",
                                                                     "yield", "block")
    scns = sc.blocking("C08", "bcast", caps=caps, waits=waits) + sc.blocking("C08", "mpmc", caps=caps, waits=waits)
    for s in scns:
        s["livelock"] = 3000
    return generic_check("C08", tier, ["C08", "C07C08"], scns, plans_for(tier), RULE_CONC +
                         "; a run that ends with a thread blocked (deadlock) or spinning without any state change "
                         "(livelock) is reported as a stuck event, accepted only if the model has nothing for that thread"
                         + RULE_IMPL, models=[impl_model_stage(["block", "blockdisc", "bview"])])


def check_C10(tier):
    caps = caps_for(tier)
    scns = (sc.add_stream_scn("C10", caps=caps) + sc.add_stream_scn("C10", caps=caps[:2], fut=True) +
            sc.add_stream_scn("C10", caps=caps[:2], shared_parent=True) + sc.many_parked("C10p", counts=(2, 3)) +
            sc.add_vs_remove("C10x", caps=caps[:2]) +
            sc.added_stream_waits("C10w", caps=caps[:2]))
    # a futures stream created by add_stream that is never woken does not "deliver every value from there on"
    # a panic of a sender or of another consumer provoked by add_stream is a side effect on the existing streams (C09)
    return generic_check("C10", tier, ["C01C02", "C03", "C06", "C01C06", "C01C07", "C14", "C07C14", "C09", "C16"], scns, plans_for(tier), RULE_CONC + RULE_IMPL,
                         models=[impl_model_stage(["addsole", "adddouble", "addshared"], expect_fail=("addshared_1",))])


def check_C11(tier):
    caps = caps_for(tier)
    scns = (sc.remove_stream("C11", "bcast", caps=caps) + sc.remove_stream("C11", "bcast", caps=caps[:2], fut=True) +
            sc.add_vs_remove("C11x", caps=caps[:2]))
    # a stream removal that makes somebody touch freed bookkeeping has done more than release the backpressure (C16)
    return generic_check("C11", tier, ["C11", "C06", "C03", "C01C02", "C08", "C14", "C07C08", "C07C14", "C01C06", "C16"], scns, plans_for(tier),
                         RULE_CONC + RULE_IMPL, models=[impl_model_stage(["rmstream", "unsub2"])])


def check_C12(tier):
    caps = caps_for(tier)
    scns = (sc.population("C12", "bcast", caps=caps) + sc.population("C12", "mpmc", caps=caps) +
            # blocked consumers and parked tasks next to handles that come and go: a value that is never delivered
            # because somebody is never woken is a visible effect too (ids C08 / C14 and the joint ids)
            sc.population_blocking("C12b", "bcast", caps=caps[:2]) + sc.population_blocking("C12b", "mpmc", caps=caps[:1]) +
            [s_ for s_ in sc.futures_scn("C12f", "bcast", caps=caps[:2]) if "sibleave" in s_["name"] or "alive" in s_["name"]] +
            [s_ for s_ in sc.blocking("C12w", "bcast", caps=caps[:1], waits=("block00",)) if s_["name"].endswith(("-7", "-8"))])
    return generic_check("C12", tier, ["C01C02", "C03", "C06", "C04", "C05", "C04C05", "C01C06", "C01C07", "C08", "C14", "C07C08",
                                       "C07C14"], scns, plans_for(tier),
                         RULE_CONC + RULE_IMPL, models=[impl_model_stage(["popsend", "poprecv", "sibdrop", "roundtrip"])])


def check_C13(tier):
    caps = caps_for(tier)
    scns = []
    for (fam, fut) in FAMILIES:
        scns += sc.no_receivers("C13", fam, caps=caps[:2], fut=fut)
    base13 = list(scns)
    scns += sc.with_epoch_pending(base13)
    # ... and with a reclamation cycle that starts only after the last receiver has gone
    scns += sc.with_epoch_late([s_ for s_ in base13 if "-c1-" in s_["name"]])
    depth = 4 if tier == "quick" else 5
    gens = []
    for (fam, fut) in FAMILIES:
        gens.append(dict(family=fam, fut=fut, cap=1, depth=depth, max_streams=3,
                         ops=["send", "start_send", "drop", "unsub", "add_stream", "clone", "recv"]
                         if fut else ["send", "drop", "unsub", "add_stream", "clone", "recv"]))
    return generic_check("C13", tier, ["C13", "C14", "C07C14"], scns, plans_for(tier), RULE_CONC +
                         "; plus all orders of dropping receivers generated from MQAbsGen" + RULE_IMPL, gens=gens,
                         models=[impl_model_stage(["norecv"])])


def aux_model_stage(module, configs, mc_defs=""):
    """Stage factory for the auxiliary design models (MQFut, MQMem): each config is model-checked exhaustively;
    configs with expect set are seeded specification mutants that TLC must refute."""
    def stage(wd, v, cov, tier):
        md.copy_specs(wd)
        cov.setdefault("model_configs", [])
        cov.setdefault("spec_mutants_refuted", 0)
        cov.setdefault("model_invariant_failures", [])

        def run(c):
            name = c["name"]
            mod = "MC_%s_%s" % (module, name)
            with open(os.path.join(wd, mod + ".tla"), "w") as f:
                f.write("---- MODULE %s ----\nEXTENDS %s\n%s\n====\n" % (mod, module, c.get("defs", "")))
            cfg = os.path.join(wd, mod + ".cfg")
            vlib.write_cfg(cfg, constants=c["constants"], invariants=c["invariants"])
            return c, vlib.tlc(mod + ".tla", cfg, os.path.join(wd, "tlc_" + mod), workers=c.get("workers", 4),
                               timeout=c.get("timeout", 1500), cwd=wd)
        sel = [c for c in configs if tier == "thorough" or not c.get("thorough_only")]
        with cf.ThreadPoolExecutor(max_workers=4) as ex:
            results = list(ex.map(run, sel))
        for c, r in results:
            violated = r["error"] is not None and "violated" in r["out"]
            if r["error"] and not violated:
                raise vlib.ToolError("TLC failed on %s/%s: %s\n%s" % (module, c["name"], r["error"], r["out"][-1200:]))
            cov["states"] += r["distinct"]
            cov["transitions"] += r["generated"]
            cov["model_configs"].append({"module": module, "name": c["name"], "distinct_states": r["distinct"],
                                         "expected": "counterexample" if c.get("expect") else "holds",
                                         "result": "counterexample" if violated else "holds"})
            if c.get("expect") and violated:
                cov["spec_mutants_refuted"] += 1
            elif c.get("expect") and not violated:
                log("  [model] %s/%s: seeded specification mutant NOT refuted" % (module, c["name"]))
            elif violated:
                cov["model_invariant_failures"].append({"model": module + "/" + c["name"]})
                log("  [model] %s/%s: invariant violated in the specification (design-level finding)" % (module, c["name"]))
        log("  [model] %s: %d configs, %d distinct states, %d seeded spec mutants refuted" %
            (module, len(results), sum(r["distinct"] for _, r in results), cov["spec_mutants_refuted"]))
    return stage


def fut_configs():
    def c(name, N, sinks, sends, streamof, dd, e1="TRUE", e2="TRUE", expect=False, thorough_only=False):
        return {"name": name, "defs": "c_SO == %s\nc_DD == %s" % (streamof, dd),
                "constants": {"N": N, "Sinks": sinks, "Sends": sends, "StreamOf": "<- c_SO", "DirectDrain": "<- c_DD",
                              "NotifyOnEmptyPoll": e1, "NotifyOnDirectRecv": e2},
                "invariants": ["NoLostWakeup", "TypeOK"], "expect": expect, "thorough_only": thorough_only}
    two_shared = '(3 :> "a") @@ (4 :> "a")'
    return [
        c("shared", 1, "{1,2}", 1, two_shared, "{}"),
        c("shared_n2", 2, "{1,2}", 2, two_shared, "{}"),
        c("separate", 1, "{1}", 2, '(2 :> "a") @@ (3 :> "b")', "{}"),
        c("direct", 1, "{1}", 2, '(2 :> "a")', "{2}"),
        c("mixed", 1, "{1,2}", 1, '(3 :> "a") @@ (4 :> "a") @@ (5 :> "b")', "{5}", thorough_only=True),
        c("three", 2, "{1,2}", 2, '(3 :> "a") @@ (4 :> "a") @@ (5 :> "a")', "{}", thorough_only=True),
        c("mut_no_empty_notify", 1, "{1,2}", 1, two_shared, "{}", e1="FALSE", expect=True),
        c("mut_no_direct_notify", 1, "{1}", 2, '(2 :> "a")', "{2}", e2="FALSE", expect=True),
    ]


def mem_configs():
    def c(name, th, maxobj, maxops, late="FALSE", skip="FALSE", atonce="FALSE", append="FALSE", tokenless="FALSE",
          expect=False, thorough_only=False):
        return {"name": name,
                "constants": {"Handles": "{1,2,3}", "Churners": "{1,2}", "TH": th, "MaxObj": maxobj, "MaxOps": maxops,
                              "AnnounceLate": late, "SkipOneToken": skip, "FreeAtOnce": atonce, "AppendPending": append,
                              "TokenlessSwap": tokenless},
                "invariants": ["NoUseAfterFree", "PublishedAlive", "NoDoubleRetire", "ReleaseAfterBump"] +
                              ([] if tokenless == "TRUE" else ["HoldersHaveTokens"]), "expect": expect,
                "thorough_only": thorough_only, "workers": 8}
    return [
        c("th1", 1, 4, 3),
        c("th2", 2, 5, 3),
        c("th1_deep", 1, 6, 4, thorough_only=True),
        c("variant_announce_late", 1, 4, 3, late="TRUE"),
        c("mut_skip_token", 1, 4, 3, skip="TRUE", expect=True),
        c("mut_free_at_once", 1, 4, 3, atonce="TRUE", expect=True),
        c("mut_append_pending", 1, 5, 3, append="TRUE", expect=True),
        c("mut_tokenless_swap", 1, 5, 3, tokenless="TRUE", expect=True),
    ]


def check_C14(tier):
    caps = caps_for(tier)[:2]
    scns = sc.futures_scn("C14", "bcast", caps=caps, spins=(0, 0)) + sc.futures_scn("C14", "mpmc", caps=caps[:1])
    if tier == "thorough":
        scns += sc.futures_scn("C14d", "bcast", caps=caps, spins=(2, 2)) + sc.futures_scn("C14x", "mpmc", caps=caps)
    scns += sc.no_receivers("C14n", "bcast", caps=caps, fut=True) + sc.remove_stream("C14r", "bcast", caps=caps, fut=True)
    scns += sc.many_parked("C14p")
    for s_ in scns:
        s_["livelock"] = 4000
    return generic_check("C14", tier, ["C14", "C07C14"], scns, plans_for(tier), RULE_CONC +
                         "; futures handles run on a deterministic executor: a task that got NotReady waits for its "
                         "notification (Notify callback), so a task parked forever is a detected deadlock and is accepted "
                         "only if the model gives it nothing to do; design level: the park/notify protocol model MQFut "
                         "is checked exhaustively for NoLostWakeup, and with each repaired notification switched off TLC "
                         "must find the lost wake-up; the futures calls are also part of the op-granular model MQImpl "
                         "(WaitKind fut: start_send/send_or_park, poll/fut_wait/park, notify, notify_all, task wake-ups), "
                         "checked for NoLostWakeup and replayed in lockstep",
                         models=[aux_model_stage("MQFut", fut_configs()),
                                 impl_model_stage(["fut_"], nonotify_mutants=("fut_shared_1",))])


def check_C15(tier):
    caps = caps_for(tier)[:2]
    scns = (sc.traffic("C15", "bcast", fut=True, caps=caps) + sc.traffic("C15", "mpmc", fut=True, caps=caps[:1]) +
            sc.futures_scn("C15f", "bcast", caps=caps) + sc.disconnect("C15d", "bcast", caps=caps, fut=True) +
            sc.disconnect("C15d", "mpmc", caps=caps[:1], fut=True) + sc.many_parked("C15p"))
    for s_ in scns:
        s_["livelock"] = 4000
    depth = 4 if tier == "quick" else 5
    gens = []
    for fam in ("bcast", "mpmc"):
        gens.append(dict(family=fam, fut=True, cap=1, depth=depth,
                         ops=["send", "start_send", "poll_complete", "recv", "poll", "view", "brecv", "clone", "drop",
                              "into_single", "into_multi", "transform"] + (["add_stream"] if fam == "bcast" else [])))
        gens.append(dict(family=fam, fut=True, cap=2, depth=40, simulate=(100 if tier == "quick" else 1500, 40),
                         ops=alphabet(fam, True), max_senders=3, max_streams=3, max_hps=2))
    # every handle in these scenarios is a futures handle: a direct recv that stays blocked where the plain one
    # returns (C08 / C07C08) does not "behave like its plain counterpart" either
    return generic_check("C15", tier, ["C15", "C01C02", "C03", "C05", "C06", "C07", "C09", "C13", "C14", "C18", "C07C14", "C01C06", "C01C07",
                                       "C08", "C07C08"], scns,
                         plans_for(tier), RULE_CONC +
                         "; plus sequential histories mixing start_send/poll_complete/poll with the direct methods "
                         "generated from MQAbsGen (including polls on a fresh empty queue); a poll/start_send that does "
                         "not return is a stuck event" + RULE_IMPL, gens=gens,
                         models=[impl_model_stage(["fut_"], nonotify_mutants=("fut_shared_1",))])


def memimpl_configs():
    def c(name, threads, churners, joiners, maxops, maxid, first=1, inner="TRUE", after="FALSE", expect=False,
          thorough_only=False):
        return {"name": name,
                "constants": {"Threads": threads, "Churners": churners, "Joiners": joiners, "TH": 1, "FirstTok": first,
                              "CheckInner": inner, "MaxOps": maxops, "MaxId": maxid, "AnnounceAfterLoad": after},
                "invariants": ["Inv"], "expect": expect, "thorough_only": thorough_only, "workers": 8}
    return [
        c("ops3", "{1,2,3}", "{1}", "{}", 3, 4),
        c("join", "{1,2,3}", "{1}", "{3}", 3, 5),
        c("churn2", "{1,2,3}", "{1,2}", "{}", 3, 5, thorough_only=True),
        c("mut_announce_after_load", "{1,2,3}", "{1}", "{}", 3, 4, after="TRUE", expect=True),
        c("mut_skip_first_token", "{1,2,3}", "{1}", "{}", 3, 4, first=2, expect=True),
        c("mut_no_inner_epoch_check", "{1,2,3}", "{1}", "{}", 3, 4, inner="FALSE", expect=True),
    ]


def check_C16(tier):
    scns = (sc.churn("C16", "bcast", caps=(2,), cycles=7 if tier == "quick" else 12) +
            sc.churn("C16l", "bcast", caps=(1,), cycles=13)[3:] + sc.two_churners("C16t") +
            sc.churn("C16", "mpmc", caps=(2,), cycles=7 if tier == "quick" else 12) +
            sc.churn("C16", "bcast", caps=(1,), cycles=7, fut=True))
    for s_ in scns:
        s_["mm_trace"] = True
    return generic_check("C16", tier, ["C16"], scns, plans_for(tier, dfs_cap_quick=1500, rnd_quick=400), RULE_CONC +
                         "; released blocks are poisoned and quarantined for the rest of the run, every shim operation "
                         "on a quarantined address is a uaf event, releasing a block twice a doublefree event; a crash "
                         "of the run process (poisoned pointer followed) is a violation; design level: the epoch "
                         "reclamation model MQMem is checked exhaustively (threshold 1-2) for NoUseAfterFree / "
                         "NoDoubleRetire, seeded specification mutants must be refuted; MQMemImpl is src/memory.rs at "
                         "the granularity of single memory operations, checked exhaustively (MQMemImplMC: handles that "
                         "operate, swap the stream list, join and leave) for NoUseAfterFree / NoDoubleRetire / NoLostBatch "
                         "with three seeded specification mutants, and every run of the real crate additionally yields "
                         "the trace of its memory-manager ops (locks, epoch, tokens, signal word, stream-list pointer, "
                         "retire / release / token allocation) which TLC validates op by op against MQMemImpl "
                         "(MQMemImplTrace); a run that does not conform is reported as a note (the model's guarantee no "
                         "longer transfers to the code), the alarm comes from the safety events: uaf, doublefree, "
                         "earlyfree (release without an epoch change or with a stale live token), tokenless, heldfree "
                         "(release of a stream list that a thread loaded in an operation it has not finished)",
                         models=[aux_model_stage("MQMem", mem_configs()), aux_model_stage("MQMemImplMC", memimpl_configs())])


def churn_stage(wd, v, cov, tier):
    """handle churn without the scheduler, memory sampled at checkpoints, judged by MQAbsTrace (Ckpt / End)"""
    cycles = 10000 if tier == "quick" else 100000
    jobs = []
    for fam in ("bcast", "mpmc"):
        for fut in (False, True):
            for extra in ([], ["--early-drop"], ["--traffic"], ["--no-receivers"], ["--quiet-bursts"]):
                for cap in ((4,) if tier == "quick" else (1, 4, 9)):
                    tag = "churn_%s%s_c%d%s" % (fam, "F" if fut else "", cap, "".join(extra).replace("--", "_"))
                    out = os.path.join(wd, tag + ".api.ndjson")
                    jobs.append((["churn", "--family", fam, "--cap", str(cap), "--cycles", str(cycles), "--out", out] +
                                 (["--fut"] if fut else []) + extra, out))
    vlib.build_harness()
    with cf.ThreadPoolExecutor(max_workers=8) as ex:
        stats = list(ex.map(lambda j: vlib.run_harness(j[0], 1800), jobs))
    for st in stats:
        if "crash" in st:
            v.crash(st, wd)
    # one trace file for TLC
    allf = os.path.join(wd, "churn_all.api.ndjson")
    with open(allf, "w") as f:
        for j in jobs:
            if os.path.exists(j[1]):
                f.write(open(j[1]).read())
    val = vlib.validate_many([allf], wd)
    log("  [churn] %d churn histories of %d cycles: %d accepted, %d rejected" %
        (len(jobs), cycles, val["accepted"], len(val["rejected"])))
    for rej in val["rejected"]:
        v.judge_rejected(rej, wd, None, None, source="churn")
    cov["states"] += val["states"]
    cov["transitions"] += val["generated"]
    cov["traces_validated_against_impl"] += val["accepted"]
    cov["evaluations"] += len(jobs)
    cov["distinct_nontrivial"] += len(jobs)
    cov["churn_cycles_per_history"] = cycles
    cov["samples"] = cov["samples"] or vlib.sample_runs([allf], 2)


def check_C17(tier):
    depth = 4 if tier == "quick" else 5
    gens = []
    for (fam, fut) in FAMILIES:
        gens.append(dict(family=fam, fut=fut, cap=2, depth=depth,
                         ops=["send", "recv", "add_stream", "clone", "drop", "unsub", "into_single", "into_multi"] +
                         (["transform", "start_send", "poll"] if fut else [])))
    for cap in (0, 1, 3, 5, 9):
        gens.append(dict(family="bcast", fut=False, cap=cap, depth=6, simulate=(40 if tier == "quick" else 400, 6),
                         ops=["send", "recv", "add_stream", "clone", "drop"]))
    scns = (sc.churn("C17", "bcast", caps=(2,), cycles=8) + sc.churn("C17", "mpmc", caps=(2,), cycles=8) +
            # list swaps that lose their compare-exchange (the candidate list is thrown away) and concurrent leavers
            sc.add_vs_remove("C17x", caps=(1, 2)) + sc.two_churners("C17t") +
            sc.remove_stream("C17r", "bcast", caps=(1,)))
    for s_ in scns:
        s_["mm_trace"] = True
    return generic_check("C17", tier, ["C17"], scns, plans_for(tier, dfs_cap_quick=300, rnd_quick=100), RULE_CONC +
                         "; teardown in every order (sequential histories from MQAbsGen, all four families, capacities "
                         "0..9): after the last handle is gone no block allocated through alloc.rs is alive; churn "
                         "histories of 10^4 (quick) / 10^5 (thorough) cycles with live blocks and heap bytes sampled at "
                         "checkpoints 100, 1000, ...: no growth beyond a plateau, heap back to its level after teardown "
                         "(also with every receiver gone and only senders churning); in every scheduled run the harness's "
                         "allocator attributes each block allocated inside a call of the crate to the crate, and after "
                         "teardown exactly 0 such bytes may be alive (crate_heap in the end event), which covers what the "
                         "allocation hooks of alloc.rs do not see (Vec buffers of stream lists, parked-task lists); "
                         "the memory-manager ops of every run are validated against MQMemImpl (a batch that is never "
                         "released shows as NoLostBatch / a never-ending pending epoch there)",
                         gens=gens, models=[churn_stage])


def check_C18(tier):
    caps = caps_for(tier)[:2]
    shapes = [(1, [1], 3, "recv", False, 3), (2, [2], 2, "recv", False, 2), (2, [1, 1], 2, "recv", False, 2),
              (1, [2], 3, "recv", False, 2)]
    scns = (sc.traffic("C18", "bcast", caps=caps, shapes=shapes) + sc.traffic("C18", "mpmc", caps=caps, shapes=shapes) +
            sc.uni_traffic("C18", "bcast", caps=caps) + sc.population("C18p", "bcast", caps=caps) +
            sc.churn("C18k", "bcast", caps=(2,), cycles=7) + sc.add_stream_scn("C18a", caps=caps))
    n = 400 if tier == "quick" else 6000
    return generic_check("C18", tier, ["C18"], scns, [("freeze", n, 0), ("random", n // 4, 0)],
                         "freeze schedules on the real crate: at random moments every thread but one is frozen wherever "
                         "it is (in the middle of any operation) and a thread that is about to start try_send / try_recv / "
                         "try_recv_view runs that call alone; MQAbsTrace requires the call to return within 64 of its own "
                         "shared-memory operations; busy-wait queues only, as the statement restricts; "
                         "distinct_nontrivial = distinct (scenario, schedule) pairs with at least one preemption")


def check_C19(tier):
    """The rule of C19 as a TLA+ table (Handles.tla) enumerated by TLC; every row becomes a compile probe."""
    import subprocess
    import shutil
    t0 = time.time()
    prop = "C19"
    wd = vlib.workdir(prop)
    v = vlib.Verdict(prop, ["C19"])
    r = vlib.tlc("Handles.tla", os.path.join(vlib.SPEC, "Handles.cfg"), os.path.join(wd, "handles.tlc"), workers=1,
                 timeout=300)
    rows = vlib.parse_printed(r["out"], "ROW")
    if not rows:
        raise vlib.ToolError("Handles.tla produced no rows: %s" % r["out"][-800:])
    PAY = {"SendSync": "u64", "SendOnly": "std::cell::Cell<u64>", "Neither": "std::rc::Rc<u64>"}
    pdir = os.path.join(wd, "probe")
    os.makedirs(os.path.join(pdir, "src", "bin"))
    os.makedirs(os.path.join(pdir, ".cargo"))
    repo = os.environ.get("VERIF_REPO_DIR", "/repo")
    # the seeded-change self tests point the harness copy at a scratch repository: follow it
    ct = open(os.path.join(vlib.HARNESS, "Cargo.toml")).read()
    import re as _re
    mm = _re.search(r'multiqueue2 = \{ path = "([^"]+)"', ct)
    if mm:
        repo = mm.group(1)
    with open(os.path.join(pdir, "Cargo.toml"), "w") as f:
        f.write('[package]\nname = "probe"\nversion = "0.1.0"\nedition = "2018"\n\n[workspace]\n\n[dependencies]\n'
                'multiqueue2 = { path = "%s" }\n' % repo)
    with open(os.path.join(pdir, ".cargo", "config.toml"), "w") as f:
        f.write('[net]\noffline = true\n')
    shutil.copy(os.path.join(vlib.HARNESS, "Cargo.lock"), os.path.join(pdir, "Cargo.lock"))
    with open(os.path.join(pdir, "src", "lib.rs"), "w") as f:
        f.write("")
    probes = {}
    for i, row in enumerate(rows):
        T = PAY[row["payload"]]
        if row["closure"] == "NoClosure":
            ty = "multiqueue2::%s<%s>" % (row["type"], T)
        else:
            F = "fn(&%s) -> u64" % T if row["closure"] == "SendFn" else "Box<dyn FnMut(&%s) -> u64>" % T
            ty = "multiqueue2::%s<u64, %s, %s>" % (row["type"], F, T)
        for trait in ("send", "sync"):
            name = "p%03d_%s" % (i, trait)
            bound = "Send" if trait == "send" else "Sync"
            with open(os.path.join(pdir, "src", "bin", name + ".rs"), "w") as f:
                f.write("#![allow(unused)]\nfn need<T: %s>() {}\nfn main() { need::<%s>(); }\n" % (bound, ty))
            probes[name] = (row, trait, ty)
    env = dict(os.environ, CARGO_NET_OFFLINE="true", CARGO_TARGET_DIR=os.path.join(wd, "probe_target"))
    p = subprocess.run(["cargo", "check", "--offline", "--bins", "--keep-going", "--message-format=json"], cwd=pdir,
                       env=env, stdout=subprocess.PIPE, stderr=subprocess.PIPE, text=True)
    errors = {}
    built = set()
    for line in p.stdout.splitlines():
        try:
            m = json.loads(line)
        except Exception:
            continue
        if m.get("reason") == "compiler-message" and m["message"].get("level") == "error":
            tgt = m["target"]["name"]
            code = (m["message"].get("code") or {}).get("code")
            errors.setdefault(tgt, []).append(code)
        if m.get("reason") == "compiler-artifact":
            built.add(m["target"]["name"])
    if "multiqueue2" not in built:
        raise vlib.ToolError("the crate itself did not compile for the probes:\n" + p.stderr[-1500:])
    mism = []
    for name, (row, trait, ty) in sorted(probes.items()):
        expect_ok = row[trait]
        errs = errors.get(name, [])
        ok = (not errs) and name in built
        if expect_ok and not ok:
            mism.append({"probe": name, "type": ty, "trait": trait, "expected": "implements", "got": errs})
        elif not expect_ok and (ok or not all(e == "E0277" for e in errs)):
            mism.append({"probe": name, "type": ty, "trait": trait, "expected": "E0277", "got": errs or "compiles"})
    log("  [table] %d rows from Handles.tla, %d compile probes, %d disagree with the table" %
        (len(rows), len(probes), len(mism)))
    shutil.rmtree(os.path.join(wd, "probe_target"), ignore_errors=True)
    if mism:
        os.makedirs(vlib.REPLAYS, exist_ok=True)
        path = os.path.join(vlib.REPLAYS, "C19-table.json")
        with open(path, "w") as f:
            json.dump({"property": "C19", "mismatches": mism, "replay": "bin/check C19"}, f, indent=1)
        v.violations.append(path)
    rc = v.finish()
    cov = {"explanation": "The rule of C19 is written as the operators ExpectSend/ExpectSync of spec/Handles.tla; TLC "
                          "enumerates all %d rows (12 handle types x 3 payload classes x closure class for the futures "
                          "single-consumer receivers); each row is compiled as two probes (T: Send, T: Sync) against the "
                          "current /repo; a positive row must compile, a negative row must fail with E0277 only." % len(rows),
           "evaluations": len(probes), "distinct_nontrivial": len(probes),
           "rule": "one probe per (row, auto trait); all distinct; non-trivial = every probe instantiates a public handle type",
           "samples": [{"row": probes[n][0], "trait": probes[n][1], "type": probes[n][2]} for n in sorted(probes)[:4]],
           "states": r["distinct"], "mismatches": len(mism), "exhaustive": True}
    vlib.write_evidence(prop, tier, "other", cov, time.time() - t0, len(v.violations),
                        ["rustc's auto-trait resolution is the ground truth; payload classes are represented by u64, "
                         "Cell<u64>, Rc<u64>; closure classes by a fn pointer and Box<dyn FnMut> (not Send)"])
    return rc


CHECKS = {"C19": check_C19, "C14": check_C14, "C15": check_C15, "C16": check_C16, "C17": check_C17, "C18": check_C18,
          "C01": check_C01, "C02": check_C02, "C03": check_C03, "C04": check_C04, "C05": check_C05, "C06": check_C06,
          "C07": check_C07, "C08": check_C08, "C09": check_C09, "C10": check_C10, "C11": check_C11, "C12": check_C12,
          "C13": check_C13}


# =========================================================================== replay
def replay(prop, path):
    """Re-runs a recorded violation: same scenario, same schedule, trace validated again."""
    with open(path) as f:
        rp = json.load(f)
    wd = vlib.workdir("replay")
    if not rp.get("scenario"):
        log("replay file has no scenario")
        return 2
    scn_file = os.path.join(wd, "scn.ndjson")
    vlib.write_scenarios(scn_file, [rp["scenario"]])
    sched = (rp.get("schedule") or {}).get("sched", [])
    sf = os.path.join(wd, "sched.ndjson")
    with open(sf, "w") as f:
        f.write(json.dumps({"scn": rp["scenario"]["name"], "sched": sched}) + "\n")
    out = os.path.join(wd, "replay.api.ndjson")
    st = vlib.run_harness(["replay", "--scn", scn_file, "--sched", sf, "--out", out, "--no-dedupe"])
    if "crash" in st:
        log("VIOLATION property=%s replay=%s" % (prop, path))
        return 1
    val = vlib.validate_many([out], wd)
    if val["rejected"]:
        d = vlib.diagnose(val["rejected"][0]["lines"], wd, "replay")
        log("replayed run rejected by MQAbsTrace; diagnosis %s" % d["ids"])
        log("VIOLATION property=%s replay=%s" % (prop, path))
        return 1
    log("replayed run accepted")
    return 0
