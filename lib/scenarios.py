"""Concurrent scenario families. A scenario is a closed program: queue flavour/capacity/wait strategy,
a sequential setup phase that builds the topology, one concurrent phase (the threads whose
interleavings are explored), and a sequential final phase (quiesce probe, drain, teardown)."""
import itertools


def S(op, h, **kw):
    d = {"op": op, "h": h}
    d.update(kw)
    return d


class Topo:
    """P senders, streams[i] = number of handles on stream i. Handles get fixed names."""

    def __init__(self, family, P, streams):
        self.family = family
        self.senders = ["tx"] + ["tx%d" % i for i in range(2, P + 1)]
        self.streams = []
        self.setup = []
        for i in range(2, P + 1):
            self.setup.append(S("clone", "tx", new="tx%d" % i))
        for si, k in enumerate(streams):
            base = "rx" if si == 0 else "s%d" % (si + 1)
            if si > 0:
                self.setup.append(S("add_stream", "rx", new=base))
            hs = [base]
            for j in range(1, k):
                n = "%s%s" % (base, "bcdef"[j - 1])
                self.setup.append(S("clone", base, new=n))
                hs.append(n)
            self.streams.append(hs)

    def all_recv(self):
        return [h for hs in self.streams for h in hs]


def final_phase(topo, dropped=(), probe=False, senders_alive=True, extra_first=()):
    """drop remaining senders, drain every stream through one of its handles, drop receivers.
    probe=True: with the senders still alive, drain to Empty and fill to Full first (C06)."""
    ops = list(extra_first)
    alive_s = [s for s in topo.senders if s not in dropped]
    alive_streams = [[h for h in hs if h not in dropped] for hs in topo.streams]
    alive_streams = [hs for hs in alive_streams if hs]
    if probe and alive_s and alive_streams:
        for hs in alive_streams:
            ops.append(S("drain", hs[0]))
        ops.append(S("fill", alive_s[0], v=9000, n=40))
        for hs in alive_streams:
            ops.append(S("drain", hs[-1]))
    for s in alive_s:
        ops.append(S("drop", s))
    for hs in alive_streams:
        ops.append(S("drain", hs[0]))
        if len(hs) > 1:
            ops.append(S("recv", hs[-1]))
    for hs in alive_streams:
        for h in hs:
            ops.append(S("drop", h))
    return ops


def scenario(name, family, fut, cap, wait, setup, threads, final, spins=None, livelock=None):
    phases = []
    if setup:
        phases.append([setup])
    phases.append(threads)
    if final:
        phases.append([final])
    s = {"name": name, "flavour": family, "fut": fut, "cap": cap, "wait": wait, "phases": phases}
    if fut and family == "bcast":
        s["spins"] = spins if spins is not None else [0, 0]
    if livelock:
        s["livelock"] = livelock
    return s


def sends(h, base, n, retry=False, api="send", drop=False):
    ops = [S(api, h, v=base + i, retry=retry) if api == "send" else S(api, h, v=base + i) for i in range(n)]
    if drop:
        ops.append(S("drop", h))
    return ops


def recvs(h, n, mode="recv", retry=False):
    if mode in ("recv", "view"):
        return [S(mode, h, retry=retry) for _ in range(n)]
    if mode in ("brecv", "bview", "frecv"):
        # blocking consumers take everything until the end of the stream, so that retrying
        # producers can always finish
        return [S(mode + "_all", h)]
    return [S(mode, h) for _ in range(n)]


def traffic(prefix, family, fut=False, caps=(1, 2), waits=("busy",), shapes=None, probe=False):
    """Family A: producers send, consumers receive; used by C01/C02/C03/C06 and (through the futures
    handles) C15. shapes: list of (P, streams, sends_per_producer, recv_mode, retry_send, recvs_per_consumer)"""
    out = []
    shapes = shapes or [
        (1, [1], 3, "recv", False, 2),
        (1, [2], 2, "recv", False, 2),
        (2, [1], 2, "recv", False, 2),
        (1, [1, 1], 2, "brecv", True, 2),
        (2, [2], 1, "brecv", True, 1),
    ]
    k = 0
    for cap in caps:
        for wait in waits:
            for (P, streams, ns, mode, retry, nr) in shapes:
                if family == "mpmc" and len(streams) > 1:
                    continue
                t = Topo(family, P, streams)
                threads = []
                dropped = set()
                for pi, s in enumerate(t.senders):
                    # a blocking consumer must eventually see the end: producers drop their handle
                    d = mode in ("brecv", "bview", "frecv")
                    threads.append(sends(s, 100 * (pi + 1) + 1, ns, retry=retry,
                                         api=("fsend" if (fut and retry) else ("start_send" if fut else "send")),
                                         drop=d))
                    if d:
                        dropped.add(s)
                for hs in t.streams:
                    for h in hs:
                        m = mode
                        if fut and mode == "recv":
                            m = "poll"
                        if fut and mode == "brecv":
                            m = "frecv"
                        threads.append(recvs(h, nr, m))
                name = "%s-%s%s-c%d-%s-%d" % (prefix, family, "F" if fut else "", cap, wait, k)
                k += 1
                out.append(scenario(name, family, fut, cap, wait, t.setup, threads,
                                    final_phase(t, dropped, probe=probe)))
    return out


def uni_traffic(prefix, family, caps=(1, 2), fut=False):
    """single-consumer (view) receivers: into_single in setup, view / bview in the threads"""
    out = []
    k = 0
    for cap in caps:
        for (P, nstreams, ns, mode) in [(1, 1, 3, "view"), (2, 1, 2, "bview"), (1, 2, 2, "view")]:
            if family == "mpmc" and nstreams > 1:
                continue
            t = Topo(family, P, [1] * nstreams)
            setup = list(t.setup) + [S("into_single", hs[0]) for hs in t.streams]
            threads = []
            dropped = set()
            for pi, s in enumerate(t.senders):
                d = mode == "bview"
                threads.append(sends(s, 100 * (pi + 1) + 1, ns, retry=(mode == "bview"), drop=d))
                if d:
                    dropped.add(s)
            for hs in t.streams:
                threads.append(recvs(hs[0], 2, mode))
            fin = []
            for s in t.senders:
                if s not in dropped:
                    fin.append(S("drop", s))
            for hs in t.streams:
                fin.append(S("drain", hs[0], api="view"))
                fin.append(S("drop", hs[0]))
            name = "%s-%s%s-uni-c%d-%d" % (prefix, family, "F" if fut else "", cap, k)
            k += 1
            out.append(scenario(name, family, fut, cap, "busy", setup, threads, fin))
    return out


# --------------------------------------------------------------------------- C07
def disconnect(prefix, family, caps=(1, 2), fut=False):
    """last sends and drops racing with consumers that poll until the end of the stream"""
    out = []
    k = 0
    ra = "poll_all" if fut else "recv_all"
    snd = "start_send" if fut else "send"
    for cap in caps:
        shapes = [
            # (P, streams, per-producer sends)
            (1, [1], 2), (1, [2], 2), (2, [1], 1), (1, [1, 1], 2), (2, [2], 1),
        ]
        for (P, streams, ns) in shapes:
            if family == "mpmc" and len(streams) > 1:
                continue
            t = Topo(family, P, streams)
            threads = []
            for pi, s in enumerate(t.senders):
                threads.append(sends(s, 100 * (pi + 1) + 1, ns, api=snd, drop=True))
            for hs in t.streams:
                for h in hs:
                    threads.append([S(ra, h), S("recv", h)])
            fin = []
            for hs in t.streams:
                for h in hs:
                    fin.append(S("recv", h))
                    fin.append(S("drop", h))
            name = "%s-%s%s-c%d-%d" % (prefix, family, "F" if fut else "", cap, k)
            k += 1
            out.append(scenario(name, family, fut, cap, "busy", t.setup, threads, fin))
        # view receivers
        t = Topo(family, 1, [1])
        threads = [sends("tx", 101, 2, api=snd, drop=True), [S("poll_all" if fut else "view_all", "rx"), S("view", "rx")]]
        name = "%s-%s%s-uni-c%d-%d" % (prefix, family, "F" if fut else "", cap, k)
        k += 1
        out.append(scenario(name, family, fut, cap, "busy", [S("into_single", "rx")], threads,
                            [S("view", "rx"), S("drop", "rx")]))
    return out


# --------------------------------------------------------------------------- C08
def blocking(prefix, family, caps=(1, 2), waits=("busy", "yield00", "block00")):
    """consumers blocked in recv; producers send and either stay alive (idle) or drop"""
    out = []
    k = 0
    for cap in caps:
        for wait in waits:
            shapes = [
                # (streams, values sent, producer drops?, consumer program)
                ([1], 2, False, "count"), ([2], 2, False, "count"), ([1, 1], 1, False, "count"),
                ([2], 2, True, "all"), ([1], 1, True, "all"), ([1], 1, True, "all2"), ([2], 1, True, "all2"),
                # a second sender handle goes away while the consumers are blocked: the remaining sender falls
                # back to the single-producer path and must still wake them
                ([1], 2, False, "pop"), ([2], 2, False, "pop"),
            ]
            for (streams, nv, drops, cmode) in shapes:
                if family == "mpmc" and len(streams) > 1:
                    continue
                two = cmode == "all2"
                pop = cmode == "pop"
                t = Topo(family, 2 if (two or pop) else 1, streams)
                threads = [sends("tx", 101, nv, retry=True, drop=drops)]
                if pop:
                    threads.append([S("drop", "tx2")])
                    cmode = "count"
                if two:
                    # two senders that finish and drop at the same time
                    threads.append(sends("tx2", 201, nv, retry=True, drop=True))
                    cmode = "all"
                for hs in t.streams:
                    # values per stream = nv; consumers of one stream share them
                    per = nv // len(hs)
                    for i, h in enumerate(hs):
                        if cmode == "all":
                            threads.append([S("brecv_all", h)])
                        else:
                            n = per + (1 if i < nv - per * len(hs) else 0)
                            threads.append([S("brecv", h) for _ in range(n)] or [S("nop", h)])
                dropped = ({"tx", "tx2"} if two else {"tx"}) if drops else set()
                if pop:
                    dropped = {"tx2"}
                name = "%s-%s-c%d-%s-%d" % (prefix, family, cap, wait, k)
                k += 1
                out.append(scenario(name, family, False, cap, wait, t.setup, threads, final_phase(t, dropped)))
            # single-consumer view
            t = Topo(family, 1, [1])
            threads = [sends("tx", 101, 2, retry=True, drop=True), [S("bview_all", "rx")]]
            name = "%s-%s-uni-c%d-%s-%d" % (prefix, family, cap, wait, k)
            k += 1
            out.append(scenario(name, family, False, cap, wait, [S("into_single", "rx")], threads,
                                [S("view", "rx"), S("drop", "rx")]))
    return out


# --------------------------------------------------------------------------- C10
def add_stream_scn(prefix, caps=(1, 2), fut=False, shared_parent=False):
    out = []
    k = 0
    rcv = "poll" if fut else "recv"
    snd = "start_send" if fut else "send"
    for cap in caps:
        for variant in range(4):
            t = Topo("bcast", 1, [2] if shared_parent else [1])
            prod = sends("tx", 101, cap + 2, api=snd)
            if variant == 0:
                adder = [S(rcv, "rx"), S("add_stream", "rx", new="n1"), S(rcv, "n1"), S(rcv, "rx")]
                third = [S(rcv, "rxb"), S(rcv, "rxb")] if shared_parent else None
            elif variant == 1:
                adder = [S("add_stream", "rx", new="n1"), S(rcv, "n1"), S(rcv, "n1")]
                third = [S(rcv, "rxb"), S(rcv, "rxb")] if shared_parent else [S(rcv, "rx"), S(rcv, "rx")]
                if not shared_parent:
                    # the adder works on a second handle-less topology: parent handle stays with the adder
                    adder = [S("add_stream", "rx", new="n1"), S(rcv, "n1"), S(rcv, "rx"), S(rcv, "n1")]
                    third = None
            elif variant == 3:
                adder = [S(rcv, "rx"), S("add_stream", "rx", new="n1"), S(rcv, "rx"), S(rcv, "n1"), S(rcv, "n1")]
                third = [S(rcv, "rxb")] if shared_parent else None
            else:
                adder = [S("add_stream", "rx", new="n1"), S("add_stream", "n1", new="n2"), S(rcv, "n2"), S(rcv, "n1")]
                third = [S(rcv, "rxb")] if shared_parent else None
            threads = [prod, adder] + ([third] if third else [])
            fin = [S("drop", "tx")]
            for h in ["rx", "n1", "n2"] + (["rxb"] if shared_parent else []):
                fin.append(S("drain", h))
            for h in ["rx", "n1", "n2"] + (["rxb"] if shared_parent else []):
                fin.append(S("drop", h))
            name = "%s-%s%s-c%d-%d" % (prefix, "shared" if shared_parent else "sole", "F" if fut else "", cap, k)
            k += 1
            out.append(scenario(name, "bcast", fut, cap, "busy", t.setup, threads, fin))
    # two add_stream calls from different threads overlap (each on the sole handle of its own stream)
    for cap in caps:
        if shared_parent:
            break
        t = Topo("bcast", 1, [1, 1])
        threads = [sends("tx", 101, cap + 3, api=snd),
                   [S("add_stream", "rx", new="n1"), S(rcv, "rx"), S(rcv, "n1"), S(rcv, "rx")],
                   [S("add_stream", "s2", new="n2"), S(rcv, "s2"), S(rcv, "s2"), S(rcv, "n2")]]
        hs = ("rx", "s2", "n1", "n2")
        # first fill with every stream where the concurrent part left it: a stream that was silently taken off the
        # list and lags behind no longer holds the producer back, and is then handed what overwrote its values
        fin = [S("fill", "tx", v=8000, n=20)] + [S("drain", h) for h in hs] + [S("fill", "tx", v=9000, n=20)] + \
              [S("drop", "tx")] + [S("drain", h) for h in hs] + [S("drop", h) for h in hs]
        name = "%s-double%s-c%d-%d" % (prefix, "F" if fut else "", cap, k)
        k += 1
        out.append(scenario(name, "bcast", fut, cap, "busy", t.setup, threads, fin))
    # another stream's consumer races with the add on a sole parent
    for cap in caps:
        t = Topo("bcast", 1, [1, 1])
        threads = [sends("tx", 101, cap + 1, api=snd),
                   [S("add_stream", "rx", new="n1"), S(rcv, "n1"), S(rcv, "rx")],
                   [S(rcv, "s2"), S(rcv, "s2")]]
        fin = [S("drop", "tx")] + [S("drain", h) for h in ("rx", "s2", "n1")] + [S("drop", h) for h in ("rx", "s2", "n1")]
        name = "%s-other%s-c%d-%d" % (prefix, "F" if fut else "", cap, k)
        k += 1
        if not shared_parent:
            out.append(scenario(name, "bcast", fut, cap, "busy", t.setup, threads, fin))
    return out


# --------------------------------------------------------------------------- C11
def remove_stream(prefix, family="bcast", caps=(1, 2), fut=False):
    out = []
    k = 0
    fs = "fsend" if fut else "send"
    ra = "frecv_all" if fut else "brecv_all"
    for cap in caps:
        for variant in range(4):
            if variant == 0:
                # the slowest stream (never reads) is dropped while the producer retries
                t = Topo(family, 1, [1, 1])
                threads = [sends("tx", 101, cap + 1, retry=True, api=fs, drop=True), [S("drop", "s2")], [S(ra, "rx")]]
                dropped = {"tx", "s2"}
            elif variant == 1:
                # two handles of the slow stream unsubscribe concurrently
                t = Topo(family, 1, [1, 2])
                threads = [sends("tx", 101, cap + 1, retry=True, api=fs, drop=True),
                           [S("unsub", "s2"), S(ra, "rx")], [S("unsub", "s2b")]]
                dropped = {"tx", "s2", "s2b"}
            elif variant == 2:
                # non-last handle goes away: the stream must keep limiting the producer
                t = Topo(family, 1, [1, 2])
                threads = [sends("tx", 101, cap + 1, api=("start_send" if fut else "send")), [S("unsub", "s2b")],
                           [S("poll" if fut else "recv", "rx")]]
                dropped = {"s2b"}
            else:
                # the fastest stream leaves, the slow one stays
                t = Topo(family, 1, [1, 1])
                threads = [sends("tx", 101, cap + 1, api=("start_send" if fut else "send")),
                           [S("poll" if fut else "recv", "rx"), S("unsub", "rx")],
                           [S("poll" if fut else "recv", "s2")]]
                dropped = {"rx"}
            name = "%s-%s%s-c%d-%d" % (prefix, family, "F" if fut else "", cap, k)
            k += 1
            out.append(scenario(name, family, fut, cap, "busy", t.setup, threads,
                                final_phase(t, dropped, probe=("tx" not in dropped))))
            if variant == 0:
                # the same with the slow stream held by a single-consumer (view) receiver: it leaves by drop or by
                # unsubscribe
                for how in ("drop", "unsub"):
                    th2 = [threads[0], [S(how, "s2")], threads[2]]
                    name = "%s-%s%s-uni-c%d-%d" % (prefix, family, "F" if fut else "", cap, k)
                    k += 1
                    out.append(scenario(name, family, fut, cap, "busy", t.setup + [S("into_single", "s2")], th2,
                                        final_phase(t, dropped, probe=False)))
    return out


# --------------------------------------------------------------------------- C12
def population(prefix, family, caps=(1, 2)):
    out = []
    k = 0
    for cap in caps:
        variants = []
        # senders 1 -> 2 -> 1 while a consumer receives
        variants.append(([1], [
            [S("send", "tx", v=101), S("clone", "tx", new="t2"), S("send", "t2", v=201), S("send", "tx", v=102),
             S("drop", "t2"), S("send", "tx", v=103)],
            [S("recv", "rx"), S("recv", "rx"), S("recv", "rx")]], set()))
        # two live senders, one of them the original (never dropped) handle
        variants.append(([1], [
            [S("clone", "tx", new="t2"), S("send", "tx", v=101), S("send", "tx", v=102)],
            [S("send", "t2", v=201), S("send", "t2", v=202), S("drop", "t2")],
            [S("recv", "rx"), S("recv", "rx")]], {"t2"}))
        # consumers of a stream 1 -> 2 -> 1, the original keeps receiving next to its clone
        variants.append(([1], [
            [S("send", "tx", v=101), S("send", "tx", v=102), S("send", "tx", v=103), S("drop", "tx")],
            [S("clone", "rx", new="r2"), S("recv", "rx"), S("recv", "rx")],
            [S("recv", "r2"), S("recv", "r2"), S("drop", "r2")]], {"tx", "r2"}))
        variants.append(([1], [
            [S("send", "tx", v=101), S("send", "tx", v=102), S("send", "tx", v=103)],
            [S("recv", "rx"), S("clone", "rx", new="r2"), S("recv", "r2"), S("drop", "r2"), S("recv", "rx")]], {"r2"}))
        # into_single / into_multi round trip during traffic
        variants.append(([1], [
            [S("send", "tx", v=101), S("send", "tx", v=102), S("send", "tx", v=103)],
            [S("into_single", "rx"), S("view", "rx"), S("into_multi", "rx"), S("recv", "rx"), S("into_single", "rx"),
             S("recv", "rx"), S("into_multi", "rx")]], set()))
        # a clone is dropped by another thread while the original is mid-receive
        variants.append(([2], [
            [S("send", "tx", v=101), S("send", "tx", v=102)],
            [S("recv", "rx"), S("recv", "rx")],
            [S("drop", "rxb")]], {"rxb"}))
        for (streams, threads, dropped) in variants:
            t = Topo(family, 1, streams)
            for extra in ("t2", "r2"):
                pass
            name = "%s-%s-c%d-%d" % (prefix, family, cap, k)
            k += 1
            t2 = t
            # handles created inside the phase are dropped by name in the final phase when still alive
            fin = final_phase(t2, dropped, probe=True)
            out.append(scenario(name, family, False, cap, "busy", t.setup, threads, fin))
    return out


def population_blocking(prefix, family, caps=(1, 2), waits=("busy", "block00")):
    """a consumer blocks in recv next to a clone of itself that consumes whole laps of the ring and leaves;
    a sender handle is cloned and dropped meanwhile"""
    out = []
    k = 0
    for cap in caps:
        for wait in waits:
            t = Topo(family, 1, [1])
            n = 2 * cap + 1
            threads = [sends("tx", 101, n, retry=True),
                       [S("clone", "rx", new="r2"), S("brecv", "rx")],
                       [S("recv", "r2", retry=True) for _ in range(n - 1)] + [S("drop", "r2")]]
            out.append(scenario("%s-%s-c%d-%s-%d" % (prefix, family, cap, wait, k), family, False, cap, wait, t.setup,
                                threads, final_phase(t, {"r2"})))
            k += 1
            threads = [[S("clone", "tx", new="t2")] + sends("tx", 101, cap + 1, retry=True),
                       [S("send", "t2", v=201, retry=True), S("drop", "t2")],
                       [S("brecv", "rx") for _ in range(cap + 2)]]
            out.append(scenario("%s-%s-c%d-%s-%d" % (prefix, family, cap, wait, k), family, False, cap, wait, t.setup,
                                threads, final_phase(t, {"t2"})))
            k += 1
    return out


# --------------------------------------------------------------------------- C13
def no_receivers(prefix, family, caps=(1, 2), fut=False):
    out = []
    k = 0
    snd = "start_send" if fut else "send"
    for cap in caps:
        variants = []
        variants.append(([1], [sends("tx", 101, 3, api=snd), [S("drop", "rx")]]))
        variants.append(([2], [sends("tx", 101, 2, api=snd), [S("drop", "rx")], [S("unsub", "rxb")]]))
        # both handles of the last stream receive something and leave at the same time: what they took must not be
        # destroyed again at teardown, what they left must be
        variants.append(([2], [sends("tx", 101, 3, api=snd), [S("recv", "rx"), S("drop", "rx")],
                               [S("recv", "rxb"), S("unsub", "rxb")]]))
        if family == "bcast":
            variants.append(([1, 1], [sends("tx", 101, 2, api=snd), [S("drop", "rx")], [S("drop", "s2")]]))
        if fut:
            # a sink task that parks while the last receiver goes away must end with an error
            variants.append(([1], [sends("tx", 101, cap + 2, api="fsend"), [S("drop", "rx")]]))
            variants.append(([1], [sends("tx", 101, cap + 2, api="fsend"), [S("poll", "rx"), S("unsub", "rx")]]))
        for (streams, threads) in variants:
            t = Topo(family, 1, streams)
            fin = [S(snd, "tx", v=901), S("send", "tx", v=902), S("clone", "tx", new="t9"), S("send", "t9", v=903),
                   S("drop", "t9"), S("drop", "tx")]
            name = "%s-%s%s-c%d-%d" % (prefix, family, "F" if fut else "", cap, k)
            k += 1
            out.append(scenario(name, family, fut, cap, "busy", t.setup, threads, fin))
    return out


# --------------------------------------------------------------------------- known finding (C05)
def known_mpmc_two_streams(prefix):
    """MPMCFutUniReceiver::add_stream_with creates a second stream on a move-out queue: the same value is
    moved out twice (recorded as a known finding, API-shape defect)."""
    setup = [S("into_single", "rx"), S("add_stream", "rx", new="n1")]
    threads = [[S("send", "tx", v=101), S("recv", "rx"), S("recv", "n1")]]
    fin = [S("drop", "tx"), S("drop", "rx"), S("drop", "n1")]
    return [scenario("%s-mpmcF-addstreamwith-0" % prefix, "mpmc", True, 2, "busy", setup, threads, fin)]


# --------------------------------------------------------------------------- C14 / C15
def futures_scn(prefix, family, caps=(1, 2), spins=(0, 0)):
    """sink and stream tasks on a deterministic executor: a task that got NotReady waits for its
    notification; receivers drain through poll, through the direct methods, or are dropped"""
    out = []
    k = 0
    for cap in caps:
        variants = []
        # (P, streams, sends per producer, consumer program per handle)
        variants.append((1, [1], cap + 2, "frecv_all"))
        variants.append((2, [1], cap + 1, "frecv_all"))
        variants.append((1, [2], cap + 2, "frecv_all"))
        variants.append((1, [1], cap + 2, "recv_all"))       # direct try_recv drains, sink parks
        variants.append((1, [1], cap + 2, "brecv_all"))      # direct blocking recv on a futures receiver
        variants.append((2, [2], cap + 1, "recv_all"))
        if family == "bcast":
            variants.append((1, [1, 1], cap + 1, "frecv_all"))
            variants.append((1, [1, 2], cap + 1, "frecv_all"))
        for (P, streams, ns, cprog) in variants:
            t = Topo(family, P, streams)
            threads = []
            for pi, s in enumerate(t.senders):
                threads.append(sends(s, 100 * (pi + 1) + 1, ns, api="fsend", drop=True))
            for hs in t.streams:
                for h in hs:
                    threads.append([S(cprog, h)])
            fin = []
            for hs in t.streams:
                fin.append(S("recv", hs[0]))
                for h in hs:
                    fin.append(S("drop", h))
            name = "%s-%sF-c%d-%d" % (prefix, family, cap, k)
            k += 1
            out.append(scenario(name, family, True, cap, "busy", t.setup, threads, fin, spins=list(spins)))
        # the sender stays alive and idle after its last value: nothing but the wake-up of that value itself can
        # get a parked consumer going again (a sender's drop would wake everybody and hide a lost wake-up)
        for (nh, takes) in (((2, (1, 1)), (2, (2, 1))) if cap > 1 else ((2, (1, 1)),)):
            t = Topo(family, 1, [nh])
            threads = [sends("tx", 101, sum(takes), api="fsend")]
            for h, n in zip(t.streams[0], takes):
                threads.append([S("frecv", h) for _ in range(n)])
            name = "%s-%sF-alive-c%d-%d" % (prefix, family, cap, k)
            k += 1
            out.append(scenario(name, family, True, cap, "busy", t.setup, threads,
                                [S("drop", "tx"), S("recv", "rx")] + [S("drop", h) for h in t.streams[0]],
                                spins=list(spins)))
        # one consumer of a shared stream takes a value and leaves while its sibling keeps polling
        t = Topo(family, 1, [2])
        threads = [sends("tx", 101, cap + 2, api="fsend", drop=True), [S("frecv_all", "rx")],
                   [S("frecv", "rxb"), S("drop", "rxb")]]
        name = "%s-%sF-sibleave-c%d-%d" % (prefix, family, cap, k)
        k += 1
        out.append(scenario(name, family, True, cap, "busy", t.setup, threads, [S("recv", "rx"), S("drop", "rx")],
                            spins=list(spins)))
        t = Topo(family, 2, [2])
        threads = [sends("tx", 101, cap + 1, api="fsend", drop=True), sends("tx2", 201, cap + 1, api="fsend", drop=True),
                   [S("frecv_all", "rx")], [S("poll", "rxb"), S("poll", "rxb"), S("drop", "rxb")]]
        name = "%s-%sF-sibleave2-c%d-%d" % (prefix, family, cap, k)
        k += 1
        out.append(scenario(name, family, True, cap, "busy", t.setup, threads, [S("recv", "rx"), S("drop", "rx")],
                            spins=list(spins)))
        # single-consumer futures receiver (view closure), polled in a task
        t = Topo(family, 1, [1])
        threads = [sends("tx", 101, cap + 2, api="fsend", drop=True), [S("frecv_all", "rx")]]
        name = "%s-%sF-uni-c%d-%d" % (prefix, family, cap, k)
        k += 1
        out.append(scenario(name, family, True, cap, "busy", [S("into_single", "rx")], threads,
                            [S("recv", "rx"), S("drop", "rx")], spins=list(spins)))
        # the receiver of a parked sink goes away / a slow stream is removed
        t = Topo(family, 1, [1])
        threads = [sends("tx", 101, cap + 2, api="fsend"), [S("poll", "rx"), S("drop", "rx")]]
        name = "%s-%sF-rxdrop-c%d-%d" % (prefix, family, cap, k)
        k += 1
        out.append(scenario(name, family, True, cap, "busy", t.setup, threads, [S("send", "tx", v=901), S("drop", "tx")],
                            spins=list(spins)))
        if family == "bcast":
            t = Topo(family, 1, [1, 1])
            threads = [sends("tx", 101, cap + 1, api="fsend", drop=True), [S("drop", "s2")], [S("frecv_all", "rx")]]
            name = "%s-%sF-rmstream-c%d-%d" % (prefix, family, cap, k)
            k += 1
            out.append(scenario(name, family, True, cap, "busy", t.setup, threads, [S("recv", "rx"), S("drop", "rx")],
                                spins=list(spins)))
    return out


# --------------------------------------------------------------------------- C16 / C17
def churn(prefix, family="bcast", caps=(2,), cycles=7, fut=False):
    """stream add/remove and handle clone/drop churn with enough retirements to trigger reclamation cycles,
    writers scanning the stream list, idle handles that never operate and a handle that acknowledges late.
    Every handle name is used by one thread only; the churner owns the sole handle of its stream."""
    out = []
    k = 0
    snd = "start_send" if fut else "send"
    rcv = "poll" if fut else "recv"
    mk = "add_stream" if family == "bcast" else "clone"
    for cap in caps:
        setup = [S("clone", "tx", new="idle_tx"), S(mk, "rx", new="idle_rx"), S(mk, "rx", new="cons_rx"),
                 S(mk, "rx", new="lag_rx")]
        churner = []
        for i in range(cycles):
            if family == "bcast":
                churner += [S("add_stream", "rx", new="a%d" % i), S(rcv, "a%d" % i), S("drop", "a%d" % i)]
            churner += [S("clone", "rx", new="c%d" % i), S("drop", "c%d" % i)]
        prod = [S(snd, "tx", v=101 + i) for i in range(cycles)]
        cons = [S(rcv, "cons_rx") for _ in range(cycles)]
        churn2 = []
        for i in range(cycles):
            churn2 += [S("clone", "tx", new="t%d" % i), S(snd, "t%d" % i, v=201 + i), S("drop", "t%d" % i)]
        lag = [S(rcv, "lag_rx")]
        fin = [S("drop", "idle_tx"), S("drop", "tx")]
        for h in ("rx", "cons_rx", "lag_rx", "idle_rx"):
            fin += [S("drain", h)] if not fut else []
        fin += [S("drop", h) for h in ("idle_rx", "cons_rx", "lag_rx", "rx")]
        for threads in ([prod, churner, cons], [prod, churner, churn2], [churn2, churner], [prod, churner, lag],
                        [prod, churner, cons, lag]):
            name = "%s-%s%s-c%d-%d" % (prefix, family, "F" if fut else "", cap, k)
            k += 1
            s = scenario(name, family, fut, cap, "busy", setup, threads, fin)
            s["livelock"] = 4000
            out.append(s)
    return out


def many_parked(prefix, counts=(7, 8, 9, 10, 12)):
    """single-threaded: n stream tasks (one per stream) park on an empty queue, one send must wake every one of
    them; n sink tasks park on a full queue, one receive on every stream must wake every one of them"""
    out = []
    for n in counts:
        setup = [S("add_stream", "rx", new="p%d" % i) for i in range(1, n)]
        hs = ["rx"] + ["p%d" % i for i in range(1, n)]
        prog = [dict(S("poll", h), task=20 + i) for i, h in enumerate(hs)]
        prog.append(S("send", "tx", v=101))
        prog += [dict(S("wpoll", h), task=20 + i) for i, h in enumerate(hs)]
        fin = [S("drop", "tx")] + [S("drop", h) for h in hs]
        out.append(scenario("%s-consparked-%d" % (prefix, n), "bcast", True, 16, "busy", setup, [prog], fin, spins=[0, 0]))
        # the end of the stream must reach every parked task too
        prog2 = [dict(S("poll", h), task=20 + i) for i, h in enumerate(hs)]
        prog2.append(S("drop", "tx"))
        prog2 += [dict(S("wpoll", h), task=20 + i) for i, h in enumerate(hs)]
        out.append(scenario("%s-consparked-end-%d" % (prefix, n), "bcast", True, 16, "busy", setup, [prog2],
                            [S("drop", h) for h in hs], spins=[0, 0]))
    return out


def deep_shared(prefix, family="bcast", cap=4, nvals=9):
    """a ring of 4 with two or three consumers of one stream and a producer that laps it twice: the
    schedules that need a lost cursor race followed by a wrap-around"""
    out = []
    for k, ncons in enumerate((2, 3)):
        t = Topo(family, 1, [ncons])
        threads = [sends("tx", 101, nvals, retry=True, drop=True)] + [[S("brecv_all", h)] for h in t.streams[0]]
        out.append(scenario("%s-%s-deep-c%d-%d" % (prefix, family, cap, k), family, False, cap, "busy", t.setup, threads,
                            final_phase(t, {"tx"})))
    return out


def overtaken(prefix, family="bcast", caps=(2,)):
    """a full ring, one consumer that takes one value, two siblings on its stream that each take one value and
    leave, and a producer that refills the ring: the consumer can lose the cursor race to one sibling, be
    overtaken by the other, find itself alone and be lapped inside its clone"""
    out = []
    for cap in caps:
        t = Topo(family, 1, [3])
        a, b, c = t.streams[0]
        setup = t.setup + sends("tx", 101, cap)
        threads = [sends("tx", 201, cap), [S("recv", a)], [S("recv", b), S("drop", b)], [S("recv", c), S("drop", c)]]
        out.append(scenario("%s-%s-overtaken-c%d" % (prefix, family, cap), family, False, cap, "busy", setup, threads,
                            final_phase(t, {b, c})))
    return out


def with_epoch_pending(scns, family_of=None):
    """variants of scenarios whose setup first retires more than 20 objects, so that the epoch-change
    signal is pending when the real program starts (every handle's first call takes the slow path)"""
    out = []
    for s in scns:
        pre = []
        if s["flavour"] == "bcast":
            for i in range(6):
                pre += [S("add_stream", "rx", new="e%d" % i), S("drop", "e%d" % i)]
        else:
            for i in range(22):
                pre += [S("clone", "rx", new="e%d" % i), S("drop", "e%d" % i)]
        s2 = dict(s)
        s2["name"] = s["name"] + "-ep"
        ph = [list(p) for p in s["phases"]]
        if len(ph) >= 2 and len(ph[0]) == 1 and len(ph[1]) > 1:
            ph[0] = [pre + list(ph[0][0])]
        else:
            ph = [[pre]] + ph
        s2["phases"] = ph
        out.append(s2)
    return out


def with_epoch_late(scns):
    """variants in which a reclamation cycle starts after the concurrent part (more than 20 sender handles are
    cloned and dropped at the head of the final phase): what the concurrent part established - for instance
    that no receiver is left - must still be in force afterwards"""
    out = []
    for s in scns:
        pre = []
        for i in range(23):
            pre += [S("clone", "tx", new="l%d" % i), S("drop", "l%d" % i)]
        s2 = dict(s)
        s2["name"] = s["name"] + "-late"
        ph = [list(p) for p in s["phases"]]
        ph[-1] = [pre + list(ph[-1][0])]
        s2["phases"] = ph
        out.append(s2)
    return out


def added_stream_waits(prefix, caps=(1, 2)):
    """futures: a stream created by add_stream is polled by a task that waits for its wake-up while a sink
    task sends; the parent keeps receiving too"""
    out = []
    for k, cap in enumerate(caps):
        setup = [S("add_stream", "rx", new="n1")]
        threads = [sends("tx", 101, cap + 1, api="fsend", drop=True), [S("frecv_all", "n1")], [S("frecv_all", "rx")]]
        out.append(scenario("%s-F-c%d-%d" % (prefix, cap, k), "bcast", True, cap, "busy", setup, threads,
                            [S("drop", "rx"), S("drop", "n1")], spins=[0, 0]))
        # the stream is added inside the phase, by the task that then waits on it
        threads = [sends("tx", 101, cap + 1, api="fsend", drop=True),
                   [S("add_stream", "rxb", new="n2"), S("drop", "rxb"), S("frecv_all", "n2")], [S("frecv_all", "rx")]]
        out.append(scenario("%s-F-in-c%d-%d" % (prefix, cap, k), "bcast", True, cap, "busy",
                            [S("add_stream", "rx", new="rxb")], threads,
                            [S("drop", "rx"), S("drop", "n2")], spins=[0, 0]))
    return out


def with_drop_yield(scns):
    """variants whose payload destructor contains a scheduling point (native exploration only)"""
    out = []
    for s in scns:
        s2 = dict(s)
        s2["name"] = s["name"] + "-dy"
        s2["drop_yield"] = True
        out.append(s2)
    return out


def add_vs_remove(prefix, caps=(1, 2), fut=False):
    """an add_stream on one stream overlaps the removal of another stream (both swap the published list)"""
    out = []
    rcv = "poll" if fut else "recv"
    snd = "start_send" if fut else "send"
    for k, cap in enumerate(caps):
        t = Topo("bcast", 1, [1, 1])
        threads = [sends("tx", 101, cap + 2, api=snd),
                   [S("drop", "s2")],
                   [S("add_stream", "rx", new="n1"), S(rcv, "rx"), S(rcv, "rx")]]
        hs = ("rx", "n1")
        fin = [S("drain", "rx"), S("fill", "tx", v=9000, n=20), S("drain", "n1"), S("drop", "tx")] + \
              [S("drain", h) for h in hs] + [S("drop", h) for h in hs]
        out.append(scenario("%s-addrm%s-c%d-%d" % (prefix, "F" if fut else "", cap, k), "bcast", fut, cap, "busy",
                            t.setup, threads, fin))
        # three streams: two are removed while one is added
        t = Topo("bcast", 1, [1, 1, 1])
        threads = [[S("drop", "s2")], [S("unsub", "s3")], [S("add_stream", "rx", new="n1"), S(snd, "tx", v=101)]]
        fin = [S("fill", "tx", v=9000, n=20), S("drain", "rx"), S("drain", "n1"), S("drop", "tx"), S("drop", "rx"), S("drop", "n1")]
        out.append(scenario("%s-addrm3%s-c%d-%d" % (prefix, "F" if fut else "", cap, k), "bcast", fut, cap, "busy",
                            t.setup, threads, fin))
    return out


def two_churners(prefix, caps=(1,), cycles_a=1, cycles_b=6):
    """one thread is in the middle of removing a stream while another thread retires enough objects for a
    whole reclamation cycle (one long freeze of the first thread is enough to expose a premature release)"""
    out = []
    for k, cap in enumerate(caps):
        setup = [S("add_stream", "rx", new="pa"), S("add_stream", "rx", new="pb"), S("add_stream", "rx", new="cons_rx")]
        a, b = [], []
        for i in range(cycles_a):
            a += [S("add_stream", "pa", new="xa%d" % i), S("drop", "xa%d" % i)]
        for i in range(cycles_b):
            b += [S("add_stream", "pb", new="xb%d" % i), S("drop", "xb%d" % i), S("clone", "pb", new="cb%d" % i),
                  S("drop", "cb%d" % i), S("recv", "pb")]
        prod = [S("send", "tx", v=101 + i) for i in range(4)]
        fin = [S("drop", "tx")] + [S("drop", h) for h in ("rx", "pa", "pb", "cons_rx")]
        for threads in ([a, b, prod], [a, b, prod, [S("recv", "cons_rx"), S("recv", "rx")]]):
            s = scenario("%s-c%d-%d" % (prefix, cap, len(out)), "bcast", False, cap, "busy", setup, threads, fin)
            s["livelock"] = 4000
            out.append(s)
    return out
